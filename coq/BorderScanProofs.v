(** * BorderScanProofs: scanner threads (BorderScanDefs.v) running against the
    point operations of BorderDefs.v (repaired reader), any number of threads
    and scanners, any interleaving.

    One inductive invariant [SInv] over [sstep2]:
    - (B)  the base invariant [Inv] of BorderProofs holds in every reachable state;
    - (S0) the ghost lists of an active scanner contain the current binding of
           every key, and only grow;
    - (S1) a completed scan of the node ([SDone v res]) is per-key consistent:
           [res] is strictly increasing in the key, every returned pair was the
           (non-null) binding of its key at some instant of the scan, every key
           that is not returned was unbound at some instant of the scan;
    - (S2) a key that is bound now but missing from [res] was inserted after
           the validated snapshot: the node's insert counter differs from the
           recorded one OR the dirty bit is set (the insert has stored its
           permutation but not yet unlocked); once the lock is free the counter
           differs.  The naive form "the counter differs" is FALSE in the
           transient state ([naive_seen_or_stale_refuted]).  *)
From Coq Require Import NArith List Bool PeanoNat Lia ZifyBool ZifyN Sorted.
From Yk Require Import ListAux BorderDefs BorderProofs BorderScanDefs.
Import ListNotations.
Local Open Scope N_scope.

(** ** What one base step does to the words a scanner depends on *)

Lemma bstep_vins_mono fixed s e s' : bstep fixed s e = Some s' -> b_vins s <= b_vins s'.
Proof.
  intros H. destruct e as [t o|t|t]; cbn [bstep] in H.
  - destruct (t_pc (b_thr s t)); try discriminate H.
    destruct (match o with OpPut _ v | OpUput _ v => negb (v =? 0) | _ => true end); try discriminate H.
    injection H as <-. cbn [b_vins]. lia.
  - repeat match type of H with
           | context [match ?x with _ => _ end] => destruct x; try discriminate H
           end;
      injection H as <-; cbn [set_pc b_vins]; lia.
  - destruct (t_pc (b_thr s t)); try discriminate H.
    injection H as <-. cbn [b_vins]. lia.
Qed.

(** the counter never decreases; and a state in which "counter = v, not dirty"
    holds for a [v] validated earlier was preceded by such a state with the
    same keys and a larger (or equal) permutation *)
Definition bframe (s s' : bstate) : Prop :=
  b_vins s <= b_vins s' /\
  (forall v, v <= b_vins s -> b_vins s' = v -> b_insdel s' = false ->
     b_vins s = v /\ b_insdel s = false /\ (forall sl, b_keys s' sl = b_keys s sl) /\
     incl (b_perm s') (b_perm s)).

Lemma bframe_same s s' :
  b_vins s' = b_vins s -> b_insdel s' = b_insdel s -> b_keys s' = b_keys s -> b_perm s' = b_perm s ->
  bframe s s'.
Proof.
  intros E1 E2 E3 E4. split; [lia|]. intros v _ H1 H2. rewrite E1 in H1. rewrite E2 in H2.
  rewrite E3, E4. repeat split; auto. apply incl_refl.
Qed.

Lemma bstep_frame s e s' : Inv s -> bstep true s e = Some s' -> bframe s s'.
Proof.
  intros HI H. destruct e as [t o|t|t]; cbn [bstep] in H.
  - destruct (t_pc (b_thr s t)); try discriminate H.
    destruct (match o with OpPut _ v | OpUput _ v => negb (v =? 0) | _ => true end); try discriminate H.
    injection H as <-. apply bframe_same; reflexivity.
  - destruct (t_op (b_thr s t)) as [o|] eqn:Ho; [|discriminate H].
    assert (Hv : in_cs (t_pc (b_thr s t)) = true -> b_insdel s = in_ins (t_pc (b_thr s t))).
    { intros Hc. apply (I_cs s HI t Hc). }
    destruct (t_pc (b_thr s t)) eqn:Hpc; try discriminate H; cbn [in_cs in_ins] in Hv;
      repeat match type of H with
             | context [match ?x with _ => _ end] => destruct x; try discriminate H
             end;
      injection H as <-;
      try (apply bframe_same; reflexivity);
      (split; cbn [set_pc b_vins b_insdel b_keys b_perm]; [lia|]; intros v0 Hle E1 E2;
       first [ discriminate E2
             | rewrite (Hv eq_refl) in E2; discriminate E2
             | lia
             | repeat split; auto; intros a; apply in_remove_at_incl ]).
  - destruct (t_pc (b_thr s t)); try discriminate H.
    injection H as <-. apply bframe_same; reflexivity.
Qed.

(** ** Strictly increasing key lists *)

Fixpoint incr (l : list N) : Prop :=
  match l with
  | [] => True
  | a :: r => (forall b, In b r -> a < b) /\ incr r
  end.

Lemma incr_snoc l k : incr l -> (forall a, In a l -> a < k) -> incr (l ++ [k]).
Proof.
  induction l as [|x l IH]; cbn [app incr In]; intros H Hk.
  - split; [intros b []|exact I].
  - destruct H as [H1 H2]. split.
    + intros b Hb. apply in_app_or in Hb as [Hb|[<-|[]]]; auto.
    + apply IH; auto.
Qed.

Lemma incr_StronglySorted l : incr l -> StronglySorted N.lt l.
Proof.
  induction l as [|x l IH]; cbn [incr]; intros H; constructor.
  - apply IH, H.
  - apply Forall_forall. apply H.
Qed.

Lemma in_fst_snoc (acc : list (N * N)) k w x :
  In x (map fst (acc ++ [(k, w)])) <-> In x (map fst acc) \/ x = k.
Proof.
  rewrite map_app, in_app_iff. cbn [map fst In]. intuition congruence.
Qed.

(** ** The scanner invariant *)

(** the pairs collected so far: increasing keys, every pair was a binding *)
Definition acc_ok (seen : N -> list (option N)) (acc : list (N * N)) : Prop :=
  incr (map fst acc) /\ forall k w, In (k, w) acc -> w <> 0 /\ In (Some w) (seen k).

Section ScanInv.
  Variables (ins : bool) (vi : N) (pm : list nat) (ks : nat -> N) (seen : N -> list (option N)).

  (** in the middle of a pass over the snapshot: [rest] = slots not yet
      visited, [cur] = key of the slot being examined, [acc] = pairs accepted *)
  Definition Mid (cur : option N) (rest : list nat) (acc : list (N * N)) : Prop :=
    ksorted ks rest /\
    acc_ok seen acc /\
    (forall k', In k' (map fst acc) -> match cur with Some k => k' < k | None => True end) /\
    (forall sl, In sl rest -> match cur with Some k => k < ks sl | None => True end) /\
    (forall k' sl, In k' (map fst acc) -> In sl rest -> k' < ks sl) /\
    (* every slot of the current permutation is still to come, current, or accepted *)
    (forall sl, In sl pm -> In sl rest \/ cur = Some (ks sl) \/ In (ks sl) (map fst acc)) /\
    (* every key is still to come, current, accepted, or was unbound during the scan *)
    (forall k, (exists sl, In sl rest /\ ks sl = k) \/ cur = Some k \/ In k (map fst acc) \/
               In None (seen k)).

  Definition SP (pc : spc) : Prop :=
    match pc with
    | SIdle | SStable0 => True
    | SPerm v => v <= vi
    | SKey v rest acc => v <= vi /\ (Cnd ins vi v -> Mid None rest acc)
    | SLv v sl k rest acc => v <= vi /\ (Cnd ins vi v -> ks sl = k /\ Mid (Some k) rest acc)
    | SCheck v k w rest acc =>
      v <= vi /\ (Cnd ins vi v -> (w = 0 \/ In (Some w) (seen k)) /\ Mid (Some k) rest acc)
    | SFinal v acc => v <= vi /\ (Cnd ins vi v -> Mid None [] acc)
    | SDone v res =>
      v <= vi /\ acc_ok seen res /\
      (forall k, In k (map fst res) \/ In None (seen k)) /\
      (Cnd ins vi v -> forall sl, In sl pm -> In (ks sl) (map fst res))
    end.
End ScanInv.

Lemma acc_ok_incl seen seen' acc :
  (forall k, incl (seen k) (seen' k)) -> acc_ok seen acc -> acc_ok seen' acc.
Proof.
  intros Hs [A1 A2]. split; [exact A1|]. intros k w Hin. destruct (A2 k w Hin) as [H1 H2].
  split; [exact H1|]. apply Hs. exact H2.
Qed.

Lemma Mid_frame pm ks seen pm' ks' seen' cur rest acc :
  Mid pm ks seen cur rest acc ->
  (forall sl, ks' sl = ks sl) -> incl pm' pm -> (forall k, incl (seen k) (seen' k)) ->
  Mid pm' ks' seen' cur rest acc.
Proof.
  intros (M1 & M2 & M3 & M4 & M5 & M6 & M7) Hk Hp Hs. unfold Mid.
  split; [|split; [|split; [|split; [|split; [|split]]]]].
  - eapply ksorted_ext; [|exact M1]. intros; apply Hk.
  - eapply acc_ok_incl; eauto.
  - exact M3.
  - intros sl Hsl. rewrite Hk. apply M4. exact Hsl.
  - intros k' sl H1 H2. rewrite Hk. apply M5; assumption.
  - intros sl Hsl. rewrite Hk. apply M6. apply Hp. exact Hsl.
  - intros k. destruct (M7 k) as [(sl & H1 & H2)|[H|[H|H]]]; auto.
    + left. exists sl. rewrite Hk. auto.
    + right. right. right. apply Hs. exact H.
Qed.

Lemma SP_frame ins vi pm ks seen ins' vi' pm' ks' seen' pc :
  SP ins vi pm ks seen pc ->
  vi <= vi' ->
  (forall v, v <= vi -> vi' = v -> ins' = false ->
     vi = v /\ ins = false /\ (forall sl, ks' sl = ks sl) /\ incl pm' pm) ->
  (forall k, incl (seen k) (seen' k)) ->
  SP ins' vi' pm' ks' seen' pc.
Proof.
  intros HP Hv F Hs. destruct pc; cbn [SP] in *; auto; try lia.
  - destruct HP as [Hle HC]. split; [lia|]. intros [E1 E2].
    destruct (F v Hle E1 E2) as (A & B & Ck & Ip). specialize (HC (conj A B)).
    eapply Mid_frame; eauto.
  - destruct HP as [Hle HC]. split; [lia|]. intros [E1 E2].
    destruct (F v Hle E1 E2) as (A & B & Ck & Ip). destruct (HC (conj A B)) as [H1 H2].
    split; [rewrite Ck; exact H1|]. eapply Mid_frame; eauto.
  - destruct HP as [Hle HC]. split; [lia|]. intros [E1 E2].
    destruct (F v Hle E1 E2) as (A & B & Ck & Ip). destruct (HC (conj A B)) as [H1 H2].
    split; [|eapply Mid_frame; eauto].
    destruct H1 as [H1|H1]; [left; exact H1|right; apply Hs; exact H1].
  - destruct HP as [Hle HC]. split; [lia|]. intros [E1 E2].
    destruct (F v Hle E1 E2) as (A & B & Ck & Ip). specialize (HC (conj A B)).
    eapply Mid_frame; eauto.
  - destruct HP as (Hle & A1 & A2 & HC). split; [lia|]. split; [eapply acc_ok_incl; eauto|]. split.
    + intros k. destruct (A2 k) as [H|H]; [left; exact H|right; apply Hs; exact H].
    + intros [E1 E2]. destruct (F v Hle E1 E2) as (A & B & Ck & Ip). specialize (HC (conj A B)).
      intros sl Hsl. rewrite Ck. apply HC. apply Ip. exact Hsl.
Qed.

(** one scanner against the base state *)
Definition ScI (b : bstate) (sc : scanner) : Prop :=
  (sc_pc sc <> SIdle -> sc_active sc = true) /\
  (sc_active sc = true -> forall k, In (bm b k) (sc_seen sc k)) /\
  SP (b_insdel b) (b_vins b) (b_perm b) (b_keys b) (sc_seen sc) (sc_pc sc).

Record SInv (s : sstate) : Prop := {
  SI_base : Inv (base s);
  SI_scn : forall t, ScI (base s) (scn s t)
}.

Lemma sinv_init : SInv sinit2.
Proof.
  constructor; cbn [sinit2 base scn].
  - exact inv_init.
  - intros _. unfold ScI, idle_scanner. cbn [sc_pc sc_active sc_seen SP].
    split; [intros H; exfalso; apply H; reflexivity|]. split; [discriminate|exact I].
Qed.

Lemma opt_eqb_true a b : opt_eqb a b = true -> a = b.
Proof.
  destruct a as [x|], b as [y|]; cbn [opt_eqb]; try discriminate; [|reflexivity].
  intros H. apply N.eqb_eq in H. congruence.
Qed.

(** a base step: every scanner's facts survive *)
Lemma note_changes_ScI b b' sc : bframe b b' -> ScI b sc -> ScI b' (note_changes b b' sc).
Proof.
  intros [Hv F] (A & B & C). unfold note_changes. destruct (sc_active sc) eqn:Ha.
  - unfold ScI. cbn [sc_pc sc_active sc_seen]. split; [reflexivity|]. split.
    + intros _ k. destruct (opt_eqb (bm b' k) (bm b k)) eqn:E.
      * apply opt_eqb_true in E. rewrite E. apply B. reflexivity.
      * cbn [In]. auto.
    + eapply SP_frame; [exact C|exact Hv|exact F|].
      intros k. destruct (opt_eqb (bm b' k) (bm b k)); [apply incl_refl|apply incl_tl, incl_refl].
  - unfold ScI. rewrite Ha. split; [exact A|]. split; [discriminate|].
    destruct (sc_pc sc) eqn:Hpc; try exact I; exfalso;
      (assert (Hf : false = true) by (apply A; discriminate)); discriminate Hf.
Qed.

(** a scanner step changes only the scanner's pc *)
Lemma sinv_set_spc s t p :
  SInv s -> sc_pc (scn s t) <> SIdle ->
  SP (b_insdel (base s)) (b_vins (base s)) (b_perm (base s)) (b_keys (base s)) (sc_seen (scn s t)) p ->
  SInv (set_spc s t p).
Proof.
  intros HS Hne HP. constructor; cbn [set_spc base scn]; [apply (SI_base s HS)|].
  intros t'. unfold updf. destruct (Nat.eqb_spec t' t) as [->|Hne']; [|apply (SI_scn s HS)].
  destruct (SI_scn s HS t) as (A & B & C). unfold ScI. cbn [sc_pc sc_active sc_seen].
  split; [intros _; apply A; exact Hne|]. split; [exact B|exact HP].
Qed.

Lemma sc_facts s t :
  SInv s -> sc_pc (scn s t) <> SIdle ->
  (forall k, In (bm (base s) k) (sc_seen (scn s t) k)) /\
  SP (b_insdel (base s)) (b_vins (base s)) (b_perm (base s)) (b_keys (base s))
     (sc_seen (scn s t)) (sc_pc (scn s t)).
Proof.
  intros HS Hne. destruct (SI_scn s HS t) as (A & B & C). split; [|exact C].
  apply B. apply A. exact Hne.
Qed.

(** load of the permutation: the snapshot covers every key *)
Lemma Mid_snapshot s seen :
  Inv s -> (forall k, In (bm s k) (seen k)) ->
  Mid (b_perm s) (b_keys s) seen None (b_perm s) [].
Proof.
  intros HI S0. unfold Mid. split; [apply (I_sorted s HI)|]. split.
  { split; cbn [map incr]; [exact I|]. intros k w []. }
  split; [intros k' []|]. split; [auto|]. split; [intros k' sl []|]. split; [auto|].
  intros k. destruct (find_rank (b_keys s) (b_perm s) k 0) as [[r sl]|] eqn:E.
  - apply find_rank_some in E as (i & _ & Hi & Hn & Hk). left. exists sl.
    split; [rewrite <- Hn; apply nth_In; exact Hi|exact Hk].
  - rewrite find_rank_none in E. right. right. right.
    destruct (I_rep s HI k) as [_ R2]. rewrite <- (R2 E). apply S0.
Qed.

(** load of the next slot's key *)
Lemma Mid_next pm ks seen sl rest acc :
  Mid pm ks seen None (sl :: rest) acc -> Mid pm ks seen (Some (ks sl)) rest acc.
Proof.
  intros (M1 & M2 & M3 & M4 & M5 & M6 & M7). cbn [ksorted] in M1. destruct M1 as [M1a M1b].
  unfold Mid. split; [exact M1b|]. split; [exact M2|]. split.
  { intros k' Hk'. apply M5; [exact Hk'|cbn; auto]. }
  split; [exact M1a|]. split.
  { intros k' sl' H1 H2. apply M5; [exact H1|cbn; auto]. }
  split.
  - intros sl' Hsl'. destruct (M6 sl' Hsl') as [[<-|H]|[H|H]]; auto. discriminate H.
  - intros k. destruct (M7 k) as [(sl' & [<-|H1] & H2)|[H|[H|H]]]; auto.
    + right. left. congruence.
    + left. exists sl'. auto.
    + discriminate H.
Qed.

(** the slot passed its check: accept the pair *)
Lemma Mid_accept pm ks seen k w rest acc :
  Mid pm ks seen (Some k) rest acc -> w <> 0 -> In (Some w) (seen k) ->
  Mid pm ks seen None rest (acc ++ [(k, w)]).
Proof.
  intros (M1 & [A1 A2] & M3 & M4 & M5 & M6 & M7) Hw Hin.
  unfold Mid. split; [exact M1|]. split.
  { split.
    - rewrite map_app. cbn [map fst]. apply incr_snoc; assumption.
    - intros k' w' H. apply in_app_or in H as [H|[H|[]]]; [apply A2; exact H|].
      injection H as <- <-. auto. }
  split; [auto|]. split; [auto|]. split.
  { intros k' sl H1 H2. apply in_fst_snoc in H1 as [H1| ->]; [apply M5; assumption|apply M4; assumption]. }
  split.
  - intros sl Hsl. destruct (M6 sl Hsl) as [H|[H|H]]; auto.
    + right. right. apply in_fst_snoc. right. congruence.
    + right. right. apply in_fst_snoc. auto.
  - intros k'. destruct (M7 k') as [H|[H|[H|H]]]; auto.
    + right. right. left. apply in_fst_snoc. right. congruence.
    + right. right. left. apply in_fst_snoc. auto.
Qed.

(** load of a slot's value word under [Cnd]: cleared, or the current binding *)
Lemma word_of_slot s seen sl k :
  Inv s -> (forall k, In (bm s k) (seen k)) -> b_insdel s = false -> b_keys s sl = k ->
  b_lvs s sl = 0 \/ In (Some (b_lvs s sl)) (seen k).
Proof.
  intros HI S0 Hi Hk. destruct (in_dec Nat.eq_dec sl (b_perm s)) as [Hsl|Hsl].
  - destruct (I_rep s HI k) as [R1 _]. pose proof (S0 k) as Hin. rewrite (R1 sl Hsl Hk) in Hin.
    destruct (N.eqb_spec (b_lvs s sl) 0) as [E|E]; auto.
  - left. apply inv_free_zero; auto.
Qed.

Lemma SPerm_restart s t :
  SInv s -> sc_pc (scn s t) <> SIdle -> SInv (set_spc s t (SPerm (b_vins (base s)))).
Proof. intros HS Hne. apply sinv_set_spc; auto. cbn [SP]. lia. Qed.

Theorem sinv_step s e s' : SInv s -> sstep2 s e = Some s' -> SInv s'.
Proof.
  intros HS. pose proof (SI_base s HS) as HI. destruct e as [be|t|t|t]; cbn [sstep2].
  - (* base *)
    destruct (bstep true (base s) be) as [b'|] eqn:E; [|discriminate].
    intros H; injection H as <-. constructor; cbn [base scn].
    + eapply inv_step; eauto.
    + intros t. apply note_changes_ScI; [eapply bstep_frame; eauto|apply (SI_scn s HS)].
  - (* invoke *)
    destruct (sc_pc (scn s t)) eqn:Hpc; try discriminate.
    intros H; injection H as <-. constructor; cbn [base scn]; [exact HI|].
    intros t'. unfold updf. destruct (Nat.eqb_spec t' t) as [->|Hne]; [|apply (SI_scn s HS)].
    unfold ScI. cbn [sc_pc sc_active sc_seen SP In]. auto.
  - (* step *)
    destruct (sc_pc (scn s t)) eqn:Hpc; try discriminate.
    + (* SStable0 *)
      destruct (stable (base s)); intros H; injection H as <-; [|exact HS].
      apply SPerm_restart; [exact HS|congruence].
    + (* SPerm *)
      assert (Hne : sc_pc (scn s t) <> SIdle) by congruence.
      destruct (sc_facts s t HS Hne) as [S0 HP]. rewrite Hpc in HP. cbn [SP] in HP.
      intros H; injection H as <-. apply sinv_set_spc; auto. cbn [SP]. split; [exact HP|].
      intros _. apply Mid_snapshot; assumption.
    + (* SKey *)
      assert (Hne : sc_pc (scn s t) <> SIdle) by congruence.
      destruct (sc_facts s t HS Hne) as [S0 HP]. rewrite Hpc in HP. cbn [SP] in HP.
      destruct HP as [Hle HC].
      destruct rest as [|sl rest]; intros H; injection H as <-.
      * apply sinv_set_spc; auto. cbn [SP]. split; [exact Hle|exact HC].
      * apply sinv_set_spc; auto. cbn [SP]. split; [exact Hle|]. intros Hc.
        split; [reflexivity|]. apply Mid_next. exact (HC Hc).
    + (* SLv *)
      assert (Hne : sc_pc (scn s t) <> SIdle) by congruence.
      destruct (sc_facts s t HS Hne) as [S0 HP]. rewrite Hpc in HP. cbn [SP] in HP.
      destruct HP as [Hle HC].
      intros H; injection H as <-. apply sinv_set_spc; auto. cbn [SP]. split; [exact Hle|].
      intros Hc. destruct (HC Hc) as [Hk HM]. split; [|exact HM].
      apply word_of_slot; auto. apply Hc.
    + (* SCheck *)
      assert (Hne : sc_pc (scn s t) <> SIdle) by congruence.
      destruct (sc_facts s t HS Hne) as [S0 HP]. rewrite Hpc in HP. cbn [SP] in HP.
      destruct HP as [Hle HC].
      destruct (negb (stable (base s))) eqn:St; [intros H; injection H as <-; exact HS|].
      apply stable_false in St as [L Hi].
      destruct (N.eqb_spec (b_vins (base s)) v) as [E|E]; cbn [negb].
      * destruct (HC (conj E Hi)) as [Hw HM].
        destruct (N.eqb_spec w 0) as [W|W]; intros H; injection H as <-;
          (apply sinv_set_spc; [exact HS|exact Hne|]); cbn [SP]; [exact Hle|].
        split; [exact Hle|]. intros _.
        destruct Hw as [Hw|Hw]; [contradiction|]. apply Mid_accept; assumption.
      * intros H; injection H as <-. apply SPerm_restart; assumption.
    + (* SFinal *)
      assert (Hne : sc_pc (scn s t) <> SIdle) by congruence.
      destruct (sc_facts s t HS Hne) as [S0 HP]. rewrite Hpc in HP. cbn [SP] in HP.
      destruct HP as [Hle HC].
      destruct (negb (stable (base s))) eqn:St; [intros H; injection H as <-; exact HS|].
      apply stable_false in St as [L Hi].
      destruct (N.eqb_spec (b_vins (base s)) v) as [E|E]; cbn [negb]; intros H; injection H as <-.
      * destruct (HC (conj E Hi)) as (M1 & M2 & M3 & M4 & M5 & M6 & M7).
        apply sinv_set_spc; auto. cbn [SP]. split; [exact Hle|]. split; [exact M2|]. split.
        -- intros k. destruct (M7 k) as [(sl & [] & _)|[H|[H|H]]]; auto. discriminate H.
        -- intros _ sl Hsl. destruct (M6 sl Hsl) as [[]|[H|H]]; [discriminate H|exact H].
      * apply SPerm_restart; assumption.
  - (* return *)
    destruct (sc_pc (scn s t)) eqn:Hpc; try discriminate.
    intros H; injection H as <-. constructor; cbn [base scn]; [exact HI|].
    intros t'. unfold updf. destruct (Nat.eqb_spec t' t) as [->|Hne]; [|apply (SI_scn s HS)].
    unfold ScI, idle_scanner. cbn [sc_pc sc_active sc_seen SP].
    split; [intros H; exfalso; apply H; reflexivity|]. split; [discriminate|exact I].
Qed.

Theorem sinv_run tr : forall s s', SInv s -> srun2 s tr = Some s' -> SInv s'.
Proof.
  induction tr as [|e tr IH]; intros s s' HS; cbn [srun2].
  - intros H; injection H as <-. exact HS.
  - destruct (sstep2 s e) as [s1|] eqn:E; [|discriminate].
    apply IH. eapply sinv_step; eauto.
Qed.

Definition reach2 (s : sstate) : Prop := exists tr, srun2 sinit2 tr = Some s.

Corollary sinv_reach s : reach2 s -> SInv s.
Proof. intros [tr H]. eapply sinv_run; [exact sinv_init|exact H]. Qed.

(** ** The properties *)

(** (B) *)
Theorem scan_base_invariant s : reach2 s -> Inv (base s).
Proof. intros H. apply SI_base. apply sinv_reach. exact H. Qed.

(** (S0) *)
Theorem scan_seen_current s t k :
  reach2 s -> sc_active (scn s t) = true -> In (bm (base s) k) (sc_seen (scn s t) k).
Proof.
  intros H Ha. destruct (SI_scn s (sinv_reach s H) t) as (_ & B & _). apply B. exact Ha.
Qed.

Lemma set_spc_seen s t' p t : sc_seen (scn (set_spc s t' p) t) = sc_seen (scn s t).
Proof. cbn [set_spc scn]. unfold updf. destruct (Nat.eqb_spec t t') as [->|]; reflexivity. Qed.

Theorem scan_seen_grows s e s' t k :
  sstep2 s e = Some s' -> e <> EScanInvoke t -> e <> EScanReturn t ->
  exists l, sc_seen (scn s' t) k = l ++ sc_seen (scn s t) k.
Proof.
  intros H Hinv Hret. destruct e as [be|t'|t'|t']; cbn [sstep2] in H.
  - destruct (bstep true (base s) be) as [b'|]; [|discriminate H]. injection H as <-.
    cbn [scn]. unfold note_changes. destruct (sc_active (scn s t)); [|exists []; reflexivity].
    cbn [sc_seen]. destruct (opt_eqb (bm b' k) (bm (base s) k)); [exists []|exists [bm b' k]]; reflexivity.
  - destruct (sc_pc (scn s t')); try discriminate H. injection H as <-. cbn [scn]. unfold updf.
    destruct (Nat.eqb_spec t t') as [->|]; [exfalso; apply Hinv; reflexivity|exists []; reflexivity].
  - repeat match type of H with
           | context [match ?x with _ => _ end] => destruct x; try discriminate H
           end;
      injection H as <-; rewrite ?set_spc_seen; exists []; reflexivity.
  - destruct (sc_pc (scn s t')); try discriminate H. injection H as <-. cbn [scn]. unfold updf.
    destruct (Nat.eqb_spec t t') as [->|]; [exfalso; apply Hret; reflexivity|exists []; reflexivity].
Qed.

Lemma SDone_facts s t v res :
  reach2 s -> sc_pc (scn s t) = SDone v res ->
  (forall k, In (bm (base s) k) (sc_seen (scn s t) k)) /\
  SP (b_insdel (base s)) (b_vins (base s)) (b_perm (base s)) (b_keys (base s))
     (sc_seen (scn s t)) (SDone v res).
Proof.
  intros H Hpc. rewrite <- Hpc. apply sc_facts; [apply sinv_reach; exact H|congruence].
Qed.

(** (S1) together with (S0) at the completed scan *)
Theorem scan_perkey s t v res :
  reach2 s -> sc_pc (scn s t) = SDone v res ->
  let seen := sc_seen (scn s t) in
  StronglySorted N.lt (map fst res) /\
  (forall k w, In (k, w) res -> w <> 0 /\ In (Some w) (seen k)) /\
  (forall k, ~ In k (map fst res) -> In None (seen k)) /\
  (forall k, In (bm (base s) k) (seen k)).
Proof.
  intros H Hpc seen. destruct (SDone_facts s t v res H Hpc) as [S0 HP]. cbn [SP] in HP.
  destruct HP as (_ & [A1 A2] & A3 & _).
  split; [apply incr_StronglySorted; exact A1|]. split; [exact A2|]. split; [|exact S0].
  intros k Hk. destruct (A3 k) as [Hin|Hn]; [contradiction|exact Hn].
Qed.

(** the ghost lists start at the invocation with the binding of that instant *)
Lemma scan_seen_invoke s t s' k :
  sstep2 s (EScanInvoke t) = Some s' ->
  sc_seen (scn s' t) k = [bm (base s) k] /\ sc_active (scn s' t) = true.
Proof.
  cbn [sstep2]. destruct (sc_pc (scn s t)); try discriminate. intros H; injection H as <-.
  cbn [scn]. rewrite updf_same. cbn [sc_seen sc_active]. auto.
Qed.

(** (S0) + (S1) in one statement *)
Theorem scan_perkey_full s t :
  reach2 s ->
  (* the ghost lists: start at the invocation, always contain the current binding, only grow *)
  (forall s' k, sstep2 s (EScanInvoke t) = Some s' -> sc_seen (scn s' t) k = [bm (base s) k]) /\
  (sc_active (scn s t) = true -> forall k, In (bm (base s) k) (sc_seen (scn s t) k)) /\
  (forall e s' k, sstep2 s e = Some s' -> e <> EScanInvoke t -> e <> EScanReturn t ->
     exists l, sc_seen (scn s' t) k = l ++ sc_seen (scn s t) k) /\
  (* a completed scan *)
  (forall v res, sc_pc (scn s t) = SDone v res ->
     let seen := sc_seen (scn s t) in
     sc_active (scn s t) = true /\
     StronglySorted N.lt (map fst res) /\
     (forall k w, In (k, w) res -> w <> 0 /\ In (Some w) (seen k)) /\
     (forall k, ~ In k (map fst res) -> In None (seen k))).
Proof.
  intros H. split; [|split; [|split]].
  - intros s' k Hs. apply (scan_seen_invoke s t s' k Hs).
  - intros Ha k. apply scan_seen_current; assumption.
  - intros e s' k Hs H1 H2. eapply scan_seen_grows; eauto.
  - intros v res Hpc seen. destruct (scan_perkey s t v res H Hpc) as (A & B & C & _).
    split; [|auto]. destruct (SI_scn s (sinv_reach s H) t) as (Ha & _). apply Ha. congruence.
Qed.

(** (S2), correct form *)
Theorem scan_seen_or_stale s t v res :
  reach2 s -> sc_pc (scn s t) = SDone v res ->
  v <= b_vins (base s) /\
  forall k, bm (base s) k <> None -> ~ In k (map fst res) ->
    (b_vins (base s) <> v \/ b_insdel (base s) = true) /\
    (b_locked (base s) = false -> b_vins (base s) <> v).
Proof.
  intros H Hpc. destruct (SDone_facts s t v res H Hpc) as [S0 HP]. cbn [SP] in HP.
  destruct HP as (Hle & _ & _ & HC). split; [exact Hle|].
  pose proof (scan_base_invariant s H) as HI.
  intros k Hb Hk.
  assert (Hno : ~ Cnd (b_insdel (base s)) (b_vins (base s)) v).
  { intros Hc. specialize (HC Hc).
    destruct (find_rank (b_keys (base s)) (b_perm (base s)) k 0) as [[r sl]|] eqn:E.
    - apply find_rank_some in E as (i & _ & Hi & Hn & Hks). apply Hk. rewrite <- Hks.
      apply HC. rewrite <- Hn. apply nth_In. exact Hi.
    - rewrite find_rank_none in E. destruct (I_rep _ HI k) as [_ R2]. apply Hb. apply R2. exact E. }
  unfold Cnd in Hno. split.
  - destruct (N.eq_dec (b_vins (base s)) v) as [E|E]; [|left; exact E].
    destruct (b_insdel (base s)); [right; reflexivity|]. exfalso. apply Hno. auto.
  - intros L E. destruct (I_free _ HI L) as (Hi & _). apply Hno. auto.
Qed.

(** the insert counter never decreases *)
Theorem scan_counter_step s e s' : sstep2 s e = Some s' -> b_vins (base s) <= b_vins (base s').
Proof.
  intros H. destruct e as [be|t|t|t]; cbn [sstep2] in H.
  - destruct (bstep true (base s) be) as [b'|] eqn:E; [|discriminate H]. injection H as <-.
    cbn [base]. eapply bstep_vins_mono; eauto.
  - destruct (sc_pc (scn s t)); try discriminate H. injection H as <-. cbn [base]. lia.
  - repeat match type of H with
           | context [match ?x with _ => _ end] => destruct x; try discriminate H
           end;
      injection H as <-; cbn [set_spc base]; lia.
  - destruct (sc_pc (scn s t)); try discriminate H. injection H as <-. cbn [base]. lia.
Qed.

Theorem scan_counter_run tr : forall s s', srun2 s tr = Some s' -> b_vins (base s) <= b_vins (base s').
Proof.
  induction tr as [|e tr IH]; intros s s'; cbn [srun2].
  - intros H; injection H as <-. lia.
  - destruct (sstep2 s e) as [s1|] eqn:E; [|discriminate]. intros H.
    apply scan_counter_step in E. apply IH in H. lia.
Qed.

(** ** The naive form of (S2) is false in the transient state *)

Definition sbsteps (t n : nat) : list sev2 := repeat (EBase (BStep t)) n.
Definition ssteps (t n : nat) : list sev2 := repeat (EScanStep t) n.
Definition sput (t : nat) (k v : N) (n : nat) : list sev2 :=
  [EBase (BInvoke t (OpPut k v))] ++ sbsteps t n ++ [EBase (BReturn t)].

(** keys 5 and 9 are bound; a scan collects both and passes its final check;
    then an insert of key 2 runs up to (and including) its permutation store *)
Definition transient_trace : list sev2 :=
  sput 0 5 7 11 ++ sput 0 9 3 12 ++
  [EScanInvoke 0] ++ ssteps 0 9 ++
  [EBase (BInvoke 2 (OpPut 2 4))] ++ sbsteps 2 4 ++
  ssteps 0 1 ++
  sbsteps 2 6.

Lemma reach2_witness (P : sstate -> Prop) tr :
  match srun2 sinit2 tr with Some s => P s | None => False end -> exists s, reach2 s /\ P s.
Proof.
  destruct (srun2 sinit2 tr) as [s|] eqn:E; [|contradiction].
  intros H. exists s. split; [exists tr; exact E|exact H].
Qed.

Theorem naive_seen_or_stale_refuted :
  exists s, reach2 s /\
    exists t v res k,
      sc_pc (scn s t) = SDone v res /\
      bm (base s) k <> None /\ ~ In k (map fst res) /\
      b_vins (base s) = v /\ b_insdel (base s) = true /\ b_locked (base s) = true.
Proof.
  apply (reach2_witness
           (fun s => exists t v res k,
                sc_pc (scn s t) = SDone v res /\
                bm (base s) k <> None /\ ~ In k (map fst res) /\
                b_vins (base s) = v /\ b_insdel (base s) = true /\ b_locked (base s) = true)
           transient_trace).
  assert (H : match srun2 sinit2 transient_trace with
              | Some s => sc_pc (scn s 0%nat) = SDone 2 [(5, 7); (9, 3)] /\ bm (base s) 2 = Some 4 /\
                          b_vins (base s) = 2 /\ b_insdel (base s) = true /\ b_locked (base s) = true
              | None => False
              end) by (vm_compute; repeat split).
  destruct (srun2 sinit2 transient_trace) as [s|]; [|contradiction].
  destruct H as (H1 & H2 & H3 & H4 & H5).
  exists 0%nat, 2, [(5, 7); (9, 3)], 2.
  split; [exact H1|]. split; [rewrite H2; discriminate|].
  split; [cbn [map fst In]; intros [H|[H|[]]]; discriminate H|]. auto.
Qed.
