(** * ChainDefs: a forward scan moving along the chain of border nodes of one layer
    while writers insert, remove, split nodes and unlink emptied nodes
    (scan_helper.h scan_border / scan, border_node.h delete_of, border_helper.h split).

    Granularity.  One border node is read atomically ([ERead]): BorderScanProofs shows
    that a validated read of one border is an atomic snapshot.  What this model adds is
    the hand-over between nodes, which is where C04's multi-node quantifier lives:
      ERead      load the permutation / slots of the current node and its next pointer
      ENextVer   load the stable version of that next node          (scan_border: "log before verify")
      EValidate  re-check the version of the current node: unchanged -> deliver the snapshot and
                 move to the next node with the version recorded by ENextVer; split or deleted ->
                 start the scan again from the root; only inserts/removes -> read this node again.
    [fix] = true is the code after the repair 61cfe63 (a delivered key that is not above the last key
    delivered before this node makes the position stale: start again); [fix] = false is the
    original behaviour.

    Nodes are kept in a list whose order is the key order of the layer; a split inserts the new node
    right after the node it splits.  An unlinked node stays in the list (marked deleted, empty, its
    next pointer frozen) because a scanner may still stand on it (epoch protection: C07).
    Ranges: a live node covers the keys from its lower bound [cn_lo] up to the lower bound of the next
    live node; separators are never updated by removes, and when the leftmost child of an interior
    node is unlinked its right sibling takes over the range ([EUnlink id true]), otherwise the left
    sibling does ([EUnlink id false]) -- interior_node.h delete_of.

    Versions: an insert bumps the insert counter of its border, a split the split counter of the border that is
    split, an unlink sets the deleted flag; a REMOVE leaves the version word unchanged, exactly as in the code.
    Over-approximations (every behaviour of the code is a behaviour of the model, not conversely):
    node capacity is not bounded and a split may happen at any time at any key of the node; a remove
    that empties a node and the unlink of that node are two steps; version counters do not wrap.

    Ghost state: [c_stable] = keys present at the scan's invocation and never removed since;
    [c_ever] = keys present at some instant since the invocation.  Executable; proofs in ChainProofs.v. *)
From Coq Require Export NArith List Bool.
Export ListNotations.
Local Open Scope N_scope.

Record cver := { cv_ins : N; cv_split : N; cv_del : bool }.
Definition cver_eqb (a b : cver) : bool :=
  (cv_ins a =? cv_ins b) && (cv_split a =? cv_split b) && Bool.eqb (cv_del a) (cv_del b).
Definition cver0 : cver := {| cv_ins := 0; cv_split := 0; cv_del := false |}.

Record cnode := { cn_id : N; cn_lo : N; cn_keys : list N; cn_next : option N; cn_ver : cver }.

Inductive scpc := CIdle | CRead | CNextVer | CValidate | CDone.

Record cscan := {
  sc_pc : scpc;
  sc_l : N; sc_r : option N;                (* the interval [l, r], r = None: unbounded *)
  sc_cur : N; sc_v : cver;                   (* current node and the version it is validated against *)
  sc_snap : list N; sc_nxt : option N;       (* what ERead loaded *)
  sc_nv : cver;                              (* what ENextVer loaded *)
  sc_res : list N;                           (* delivered keys *)
  sc_nvset : list (N * cver);                (* recorded (node, version) pairs *)
  sc_restarts : N;
}.

Record cstate := {
  c_nodes : list cnode;
  c_fresh : N;
  c_scan : cscan;
  c_stable : list N;      (* ghost *)
  c_ever : list N;        (* ghost *)
}.

Inductive cev :=
| EIns (k : N) | ERem (k : N) | ESplit (id m : N) | EUnlink (id : N) (absorb_right : bool)
| EBegin (l : N) (r : option N) | ERead | ENextVer | EValidate.

(** ** nodes *)
Definition live (n : cnode) : bool := negb (cv_del (cn_ver n)).
Fixpoint find_node (id : N) (ns : list cnode) : option cnode :=
  match ns with
  | [] => None
  | n :: tl => if cn_id n =? id then Some n else find_node id tl
  end.
Fixpoint update_node (id : N) (f : cnode -> cnode) (ns : list cnode) : list cnode :=
  match ns with
  | [] => []
  | n :: tl => if cn_id n =? id then f n :: tl else n :: update_node id f tl
  end.
(** the live node covering key k: the last live node whose lower bound is <= k *)
Fixpoint cover_from (k : N) (best : option cnode) (ns : list cnode) : option cnode :=
  match ns with
  | [] => best
  | n :: tl => if live n && (cn_lo n <=? k) then cover_from k (Some n) tl else cover_from k best tl
  end.
Definition cover (k : N) (ns : list cnode) : option cnode := cover_from k None ns.
Definition all_keys (ns : list cnode) : list N := flat_map (fun n => if live n then cn_keys n else []) ns.
Definition mem (k : N) (l : list N) : bool := existsb (N.eqb k) l.
Fixpoint insert_sorted (k : N) (l : list N) : list N :=
  match l with
  | [] => [k]
  | x :: tl => if k <? x then k :: l else x :: insert_sorted k tl
  end.
Definition remove_key (k : N) (l : list N) : list N := filter (fun x => negb (x =? k)) l.
Definition bump_ins (v : cver) : cver := {| cv_ins := cv_ins v + 1; cv_split := cv_split v; cv_del := cv_del v |}.
Definition bump_split (v : cver) : cver := {| cv_ins := cv_ins v; cv_split := cv_split v + 1; cv_del := cv_del v |}.
Definition set_del (v : cver) : cver := {| cv_ins := cv_ins v; cv_split := cv_split v; cv_del := true |}.
Definition with_keys (n : cnode) (ks : list N) (v : cver) : cnode :=
  {| cn_id := cn_id n; cn_lo := cn_lo n; cn_keys := ks; cn_next := cn_next n; cn_ver := v |}.
Definition with_next (n : cnode) (nx : option N) : cnode :=
  {| cn_id := cn_id n; cn_lo := cn_lo n; cn_keys := cn_keys n; cn_next := nx; cn_ver := cn_ver n |}.
Definition with_lo (n : cnode) (lo : N) : cnode :=
  {| cn_id := cn_id n; cn_lo := lo; cn_keys := cn_keys n; cn_next := cn_next n; cn_ver := cn_ver n |}.

(** insert the new node right after node [id] *)
Fixpoint insert_after (id : N) (nw : cnode) (ns : list cnode) : list cnode :=
  match ns with
  | [] => []
  | n :: tl => if cn_id n =? id then n :: nw :: tl else n :: insert_after id nw tl
  end.
(** the first live node after node [id] in list order *)
Fixpoint first_live (ns : list cnode) : option cnode :=
  match ns with
  | [] => None
  | n :: tl => if live n then Some n else first_live tl
  end.
Fixpoint after (id : N) (ns : list cnode) : list cnode :=
  match ns with
  | [] => []
  | n :: tl => if cn_id n =? id then tl else after id tl
  end.
Fixpoint before (id : N) (ns : list cnode) : list cnode :=
  match ns with
  | [] => []
  | n :: tl => if cn_id n =? id then [] else n :: before id tl
  end.
Definition next_live (id : N) (ns : list cnode) : option cnode := first_live (after id ns).
Definition has_live (ns : list cnode) : bool := existsb live ns.
Definition opt_id_eqb (a : option N) (id : N) : bool := match a with Some x => x =? id | None => false end.

(** ** scanner *)
Definition idle_scan : cscan :=
  {| sc_pc := CIdle; sc_l := 0; sc_r := None; sc_cur := 0; sc_v := cver0; sc_snap := []; sc_nxt := None;
     sc_nv := cver0; sc_res := []; sc_nvset := []; sc_restarts := 0 |}.
Definition scanning (sc : cscan) : bool :=
  match sc_pc sc with CIdle | CDone => false | _ => true end.
Definition le_r (k : N) (r : option N) : bool := match r with None => true | Some x => k <=? x end.
Definition last_key (l : list N) : option N := match rev l with [] => None | x :: _ => Some x end.

(** (re)start from the root: find the border covering l, take its stable version *)
Definition start_scan (ns : list cnode) (l : N) (r : option N) (restarts : N) : option cscan :=
  match cover l ns with
  | None => None
  | Some n => Some {| sc_pc := CRead; sc_l := l; sc_r := r; sc_cur := cn_id n; sc_v := cn_ver n; sc_snap := [];
                      sc_nxt := None; sc_nv := cver0; sc_res := []; sc_nvset := []; sc_restarts := restarts |}
  end.

Definition set_scan (s : cstate) (sc : cscan) : cstate :=
  {| c_nodes := c_nodes s; c_fresh := c_fresh s; c_scan := sc; c_stable := c_stable s; c_ever := c_ever s |}.

Definition cstep (fix_ : bool) (s : cstate) (e : cev) : option cstate :=
  let ns := c_nodes s in
  let sc := c_scan s in
  match e with
  | EIns k =>
      if mem k (all_keys ns) then None else
      match cover k ns with
      | None => None
      | Some n =>
          Some {| c_nodes := update_node (cn_id n) (fun x => with_keys x (insert_sorted k (cn_keys x)) (bump_ins (cn_ver x))) ns;
                  c_fresh := c_fresh s; c_scan := sc; c_stable := c_stable s;
                  c_ever := if scanning sc then k :: c_ever s else c_ever s |}
      end
  | ERem k =>
      if negb (mem k (all_keys ns)) then None else
      match cover k ns with
      | None => None
      | Some n =>
          (* a remove does NOT change the version word of its border (interface_remove.h: "delete operation is not
             tracked"; the unlock after delete_of finds no dirty bit): readers cannot detect it by the version *)
          Some {| c_nodes := update_node (cn_id n) (fun x => with_keys x (remove_key k (cn_keys x)) (cn_ver x)) ns;
                  c_fresh := c_fresh s; c_scan := sc; c_stable := remove_key k (c_stable s); c_ever := c_ever s |}
      end
  | ESplit id m =>
      match find_node id ns with
      | None => None
      | Some n =>
          if live n && mem m (cn_keys n) && existsb (fun x => x <? m) (cn_keys n) then
            let nw := {| cn_id := c_fresh s; cn_lo := m; cn_keys := filter (fun x => m <=? x) (cn_keys n);
                         cn_next := cn_next n; cn_ver := cver0 |} in
            let ns1 := update_node id (fun x => with_next (with_keys x (filter (fun y => y <? m) (cn_keys x))
                                                                (bump_split (cn_ver x))) (Some (c_fresh s))) ns in
            Some {| c_nodes := insert_after id nw ns1; c_fresh := c_fresh s + 1; c_scan := sc;
                    c_stable := c_stable s; c_ever := c_ever s |}
          else None
      end
  | EUnlink id absorb_right =>
      match find_node id ns with
      | None => None
      | Some n =>
          if live n && (match cn_keys n with [] => true | _ => false end) then
            let bef := before id ns in
            let aft := after id ns in
            if absorb_right then
              (* leftmost child of its interior node: the next live node takes over the range *)
              match first_live aft with
              | None => None
              | Some nx =>
                  let ns1 := update_node (cn_id nx) (fun x => with_lo x (cn_lo n)) ns in
                  let ns2 := map (fun x => if live x && opt_id_eqb (cn_next x) id then with_next x (cn_next n) else x) ns1 in
                  Some {| c_nodes := update_node id (fun x => with_keys x [] (set_del (cn_ver x))) ns2;
                          c_fresh := c_fresh s; c_scan := sc; c_stable := c_stable s; c_ever := c_ever s |}
              end
            else
              (* the previous live node takes over the range: only if there is one *)
              if has_live bef then
                let ns2 := map (fun x => if live x && opt_id_eqb (cn_next x) id then with_next x (cn_next n) else x) ns in
                Some {| c_nodes := update_node id (fun x => with_keys x [] (set_del (cn_ver x))) ns2;
                        c_fresh := c_fresh s; c_scan := sc; c_stable := c_stable s; c_ever := c_ever s |}
              else None
          else None
      end
  | EBegin l r =>
      match sc_pc sc with
      | CIdle =>
          match start_scan ns l r 0 with
          | None => None
          | Some sc' => Some {| c_nodes := ns; c_fresh := c_fresh s; c_scan := sc';
                                c_stable := all_keys ns; c_ever := all_keys ns |}
          end
      | _ => None
      end
  | ERead =>
      match sc_pc sc with
      | CRead =>
          match find_node (sc_cur sc) ns with
          | None => None
          | Some n =>
              Some (set_scan s {| sc_pc := CNextVer; sc_l := sc_l sc; sc_r := sc_r sc; sc_cur := sc_cur sc; sc_v := sc_v sc;
                                  sc_snap := cn_keys n; sc_nxt := cn_next n; sc_nv := sc_nv sc; sc_res := sc_res sc;
                                  sc_nvset := sc_nvset sc; sc_restarts := sc_restarts sc |})
          end
      | _ => None
      end
  | ENextVer =>
      match sc_pc sc with
      | CNextVer =>
          let nv := match sc_nxt sc with
                    | Some id => match find_node id ns with Some n => cn_ver n | None => cver0 end
                    | None => cver0
                    end in
          Some (set_scan s {| sc_pc := CValidate; sc_l := sc_l sc; sc_r := sc_r sc; sc_cur := sc_cur sc; sc_v := sc_v sc;
                              sc_snap := sc_snap sc; sc_nxt := sc_nxt sc; sc_nv := nv; sc_res := sc_res sc;
                              sc_nvset := sc_nvset sc; sc_restarts := sc_restarts sc |})
      | _ => None
      end
  | EValidate =>
      match sc_pc sc with
      | CValidate =>
          match find_node (sc_cur sc) ns with
          | None => None
          | Some n =>
              let w := cn_ver n in
              let restart := match start_scan ns (sc_l sc) (sc_r sc) (sc_restarts sc + 1) with
                             | Some sc' => Some (set_scan s sc') | None => None end in
              if cver_eqb w (sc_v sc) then
                let stale := match last_key (sc_res sc) with
                             | Some lk => existsb (fun k => k <=? lk) (sc_snap sc)
                             | None => false
                             end in
                if fix_ && stale then restart else
                let ks := filter (fun k => sc_l sc <=? k) (sc_snap sc) in
                let res' := sc_res sc ++ filter (fun k => le_r k (sc_r sc)) ks in
                let nvs' := sc_nvset sc ++ [(sc_cur sc, sc_v sc)] in
                let beyond := existsb (fun k => negb (le_r k (sc_r sc))) ks in
                match (if beyond then None else sc_nxt sc) with
                | None =>
                    Some (set_scan s {| sc_pc := CDone; sc_l := sc_l sc; sc_r := sc_r sc; sc_cur := sc_cur sc; sc_v := sc_v sc;
                                        sc_snap := []; sc_nxt := None; sc_nv := cver0; sc_res := res'; sc_nvset := nvs';
                                        sc_restarts := sc_restarts sc |})
                | Some nx =>
                    Some (set_scan s {| sc_pc := CRead; sc_l := sc_l sc; sc_r := sc_r sc; sc_cur := nx; sc_v := sc_nv sc;
                                        sc_snap := []; sc_nxt := None; sc_nv := cver0; sc_res := res'; sc_nvset := nvs';
                                        sc_restarts := sc_restarts sc |})
                end
              else if negb (cv_split w =? cv_split (sc_v sc)) || cv_del w then restart
              else
                Some (set_scan s {| sc_pc := CRead; sc_l := sc_l sc; sc_r := sc_r sc; sc_cur := sc_cur sc; sc_v := w;
                                    sc_snap := []; sc_nxt := None; sc_nv := cver0; sc_res := sc_res sc;
                                    sc_nvset := sc_nvset sc; sc_restarts := sc_restarts sc |})
          end
      | _ => None
      end
  end.

Fixpoint crun (fix_ : bool) (s : cstate) (evs : list cev) : option cstate :=
  match evs with
  | [] => Some s
  | e :: tl => match cstep fix_ s e with Some s' => crun fix_ s' tl | None => None end
  end.

(** an initial layer: one node per key list, lower bounds = first key of each node (0 for the first) *)
Fixpoint mk_nodes (id : N) (first : bool) (kss : list (list N)) : list cnode :=
  match kss with
  | [] => []
  | ks :: tl =>
      {| cn_id := id; cn_lo := if first then 0 else match ks with k :: _ => k | [] => 0 end; cn_keys := ks;
         cn_next := match tl with [] => None | _ => Some (id + 1) end; cn_ver := cver0 |} :: mk_nodes (id + 1) false tl
  end.
Definition cinit (kss : list (list N)) : cstate :=
  {| c_nodes := mk_nodes 0 true kss; c_fresh := N.of_nat (length kss); c_scan := idle_scan; c_stable := []; c_ever := [] |}.

Fixpoint sorted_strict (l : list N) : bool :=
  match l with
  | [] => true
  | x :: tl => match tl with [] => true | y :: _ => (x <? y) && sorted_strict tl end
  end.

(** the history of F8 (corpus/C04/f8_scan_next_border_grew_left.scen): two borders [10] and [20;30]; the scan
    delivers 10 and stands between the nodes; 10 is removed, its border unlinked (the right sibling takes over
    the range), 10 is inserted again and lands in the second border *)
Definition f8_trace : list cev :=
  [EBegin 0 None; ERead; ENextVer; EValidate; ERem 10; EUnlink 0 true; EIns 10; ERead; ENextVer; EValidate;
   ERead; ENextVer; EValidate].
Definition f8_result (fix_ : bool) : option (scpc * list N * N) :=
  match crun fix_ (cinit [[10]; [20; 30]]) f8_trace with
  | Some s => Some (sc_pc (c_scan s), sc_res (c_scan s), sc_restarts (c_scan s))
  | None => None
  end.

(** well-formed initial layer: at least one node, all keys strictly ascending along the chain, every node but
    the first non-empty (its lower bound is its first key) *)
Definition kss_ok (kss : list (list N)) : bool :=
  negb (match kss with [] => true | _ => false end) && sorted_strict (concat kss)
  && forallb (fun ks => match ks with [] => false | _ => true end) (tl kss).
Definition in_interval (l : N) (r : option N) (k : N) : bool := (l <=? k) && le_r k r.
