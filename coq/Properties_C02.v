(** * C02 -- single-threaded behaviour equals an ordered byte-string map.

    Full statement (target): for every operation list [ops] over create / put /
    unique put / get / remove / delete-storage with arbitrary byte-string keys,
      map abs_out (snd (exec_all sys_init ops)) = snd (spec_exec_all spec_init ops).
    Proved so far (names end in _partial): the refinement for ONE trie layer -- a
    B+-tree with 15-slot leaves, separators never updated on delete, left/right
    absorption, promotion of the last sibling -- for every reachable shape. The
    trie level (StoreProofs) and the system level are added as they are proved. *)
From Coq Require Import NArith List Permutation.
From Yk Require Import ListAux KeyDefs KeyProofs TreeDefs LeafProofs LayerProofs.
Import ListNotations.
Local Open Scope N_scope.

(** lookup in a layer finds exactly the entry with that key *)
Theorem C02_layer_lookup_partial : forall root k s,
  WF_bt None None root -> kt_wf k = true ->
  (layer_lookup root k = Some s <-> In s (bt_elems root) /\ sl_key s = k).
Proof. exact layer_lookup_some. Qed.
Print Assumptions C02_layer_lookup_partial.

Theorem C02_layer_lookup_miss_partial : forall root k,
  WF_bt None None root -> kt_wf k = true ->
  (layer_lookup root k = None <-> ~ In k (bt_keys root)).
Proof. exact layer_lookup_none. Qed.
Print Assumptions C02_layer_lookup_miss_partial.

(** inserting an absent key (with every split it may cause, up to a new root)
    yields a well-formed layer whose sorted contents are the old ones plus the entry *)
Theorem C02_layer_insert_partial : forall root k lv ctr,
  WF_layer root -> kt_wf k = true -> ~ In k (bt_keys root) ->
  entry_ok {| sl_key := k; sl_lv := lv |} -> (forall i, In i (bt_ids root) -> i < ctr) ->
  exists root' info ctr', layer_put root k lv ctr = Some (root', info, ctr') /\
    WF_layer root' /\ sorted_keys (bt_keys root') /\
    (exists A B, bt_elems root = A ++ B /\ bt_elems root' = A ++ {| sl_key := k; sl_lv := lv |} :: B) /\
    Permutation (bt_elems root') ({| sl_key := k; sl_lv := lv |} :: bt_elems root) /\
    ctr <= ctr' /\ (forall i, In i (bt_ids root') -> i < ctr') /\
    (forall i, In i (bt_ids root) -> In i (bt_ids root')) /\
    (forall i, In i (bt_ids root') -> In i (bt_ids root) \/ ctr <= i < ctr') /\
    In (pi_modified info) (bt_ids root) /\
    match pi_created info with
    | Some c => c = ctr /\ In c (bt_ids root') /\ ~ In c (bt_ids root)
    | None => True
    end.
Proof. exact layer_put_spec. Qed.
Print Assumptions C02_layer_insert_partial.

(** the contents of a well-formed layer are strictly sorted: the ordered-map view is well defined *)
Theorem C02_layer_sorted_partial : forall lo hi t,
  WF_bt lo hi t ->
  sorted_keys (bt_keys t) /\ Forall (fun k => kt_wf k = true) (bt_keys t) /\
  Forall entry_ok (bt_elems t) /\ Forall (in_bnd lo hi) (bt_keys t).
Proof. exact bt_elems_sorted. Qed.
Print Assumptions C02_layer_sorted_partial.

(** ** The trie level: one storage refines an ordered byte-string map (StoreProofs) *)
From Yk Require Import SpecDefs StoreProofs.

(** the abstraction of a well-formed storage is a strictly sorted association list *)
Theorem C02_abs_sorted : forall ctr tr, WF_store ctr tr -> lex_sorted (abs_tree tr).
Proof. exact abs_tree_sorted. Qed.
Print Assumptions C02_abs_sorted.

Theorem C02_get_refines_map : forall ctr tr k,
  WF_store ctr tr -> bytes k -> exists o, get tr k = Some o /\
  match smap_get (abs_tree tr) k with
  | Some a => go_status o = St_OK /\ option_map abs_value (go_value o) = Some a
  | None => go_status o = St_WARN_NOT_EXIST /\ go_value o = None
  end.
Proof. exact get_refines. Qed.
Print Assumptions C02_get_refines_map.

Theorem C02_put_refines_map : forall ctr tr k v unique,
  WF_store ctr tr -> bytes k -> exists tr' po ctr',
  put tr k v unique ctr = Some (tr', po, ctr') /\ WF_store ctr' tr' /\ ctr <= ctr' /\
  match smap_get (abs_tree tr) k with
  | None => po_status po = St_OK /\ abs_tree tr' = smap_put (abs_tree tr) k (abs_value v)
  | Some _ => if unique then po_status po = St_WARN_UNIQUE_RESTRICTION /\ abs_tree tr' = abs_tree tr
              else po_status po = St_OK /\ abs_tree tr' = smap_put (abs_tree tr) k (abs_value v)
  end.
Proof. exact put_refines. Qed.
Print Assumptions C02_put_refines_map.

Theorem C02_remove_refines_map : forall ctr tr k,
  WF_store ctr tr -> bytes k -> exists tr' ro, remove tr k = Some (tr', ro) /\ WF_store ctr tr' /\
  if t_null tr then ro_status ro = St_OK_ROOT_IS_NULL /\ tr' = tr
  else match smap_get (abs_tree tr) k with
       | Some _ => ro_status ro = St_OK /\ abs_tree tr' = smap_del (abs_tree tr) k
       | None => ro_status ro = St_OK_NOT_FOUND /\ abs_tree tr' = abs_tree tr
       end.
Proof. exact remove_refines. Qed.
Print Assumptions C02_remove_refines_map.

(** a fresh storage is well formed and empty: by the three theorems above every history of
    put / unique put / get / remove on one storage returns what the ordered map returns, and
    after removing every key the abstraction is [] again -- the same as on a fresh storage *)
Theorem C02_fresh_storage : forall ctr id, id < ctr -> WF_store ctr (empty_tree id) /\ abs_tree (empty_tree id) = [].
Proof. exact empty_tree_wf. Qed.
Print Assumptions C02_fresh_storage.

(** ** The whole system: every scan-free operation sequence refines the map of ordered maps *)
From Yk Require Import SysDefs SysProofs.

(** THE statement of C02 (and of C13's sequential half): for every sequence of create /
    delete-storage / find / put / unique put / get / remove / destroy over arbitrary byte-string
    names and keys (no length bound), every returned status and value equals what a map from
    names to ordered byte-string maps returns.  In particular removing every key and
    re-inserting in any order behaves as on a fresh storage (outputs depend on the abstraction
    only). *)
Theorem C02_refines_map : forall ops,
  Forall (fun o => noscan o = true) ops -> Forall op_bytes ops ->
  map abs_out (snd (exec_all sys_init ops)) = snd (spec_exec_all spec_init ops).
Proof. exact sys_refines_spec. Qed.
Print Assumptions C02_refines_map.

(** ** All operations, scans and list_storages included (SysScanProofs) *)
From Yk Require Import SysScanProofs.
Theorem C02_refines_map_all_ops : forall ops, Forall op_bytes ops ->
  map abs_out (snd (exec_all sys_init ops)) = snd (spec_exec_all spec_init ops).
Proof. exact sys_refines_spec_all. Qed.
Print Assumptions C02_refines_map_all_ops.
