(** * Nibble: bit-level lemmas for Word64 (testbit characterisations). *)
From Coq Require Import NArith Lia Bool.
From Yk Require Import Word64.
Local Open Scope N_scope.

Lemma testbit_ones k n : N.testbit (N.ones k) n = (n <? k).
Proof.
  destruct (N.ltb_spec n k) as [H|H].
  - apply N.ones_spec_low; exact H.
  - apply N.ones_spec_high; exact H.
Qed.

Lemma mask64_ones : mask64 = N.ones 64.
Proof. reflexivity. Qed.

Lemma fifteen_ones : 15 = N.ones 4.
Proof. reflexivity. Qed.

Lemma testbit_mask64 n : N.testbit mask64 n = (n <? 64).
Proof. rewrite mask64_ones. apply testbit_ones. Qed.

Lemma testbit_15 n : N.testbit 15 n = (n <? 4).
Proof. rewrite fifteen_ones. apply testbit_ones. Qed.

Lemma testbit_trunc64 w n : N.testbit (trunc64 w) n = N.testbit w n && (n <? 64).
Proof. unfold trunc64. rewrite N.land_spec, testbit_mask64. reflexivity. Qed.

Lemma testbit_shr w k n : N.testbit (shr w k) n = N.testbit w (n + k).
Proof. unfold shr. apply N.shiftr_spec'. Qed.

Lemma testbit_shl w k n :
  N.testbit (shl w k) n = (k <=? n) && N.testbit w (n - k) && (n <? 64).
Proof.
  unfold shl. rewrite testbit_trunc64.
  destruct (N.leb_spec k n) as [H|H].
  - rewrite N.shiftl_spec_high' by exact H. reflexivity.
  - rewrite N.shiftl_spec_low by exact H. reflexivity.
Qed.

Lemma testbit_not64 w n : N.testbit (not64 w) n = negb (N.testbit w n) && (n <? 64).
Proof.
  unfold not64. rewrite N.lxor_spec, testbit_trunc64, testbit_mask64.
  destruct (N.testbit w n), (n <? 64); reflexivity.
Qed.

Lemma testbit_nib w i n : N.testbit (nib w i) n = N.testbit w (n + 4 * i) && (n <? 4).
Proof. unfold nib. rewrite N.land_spec, N.shiftr_spec', testbit_15. reflexivity. Qed.

Lemma testbit_field w lo len n :
  N.testbit (field w lo len) n = N.testbit w (n + lo) && (n <? len).
Proof. unfold field. rewrite N.land_spec, N.shiftr_spec', testbit_ones. reflexivity. Qed.

Lemma testbit_set_field w lo len v n :
  N.testbit (set_field w lo len v) n =
  if (lo <=? n) && (n <? lo + len) then N.testbit v (n - lo) else N.testbit w n.
Proof.
  unfold set_field.
  rewrite N.lor_spec, N.ldiff_spec.
  destruct (N.leb_spec lo n) as [H|H].
  - rewrite !N.shiftl_spec_high' by exact H.
    rewrite N.land_spec, !testbit_ones.
    destruct (N.ltb_spec (n - lo) len) as [H1|H1];
      destruct (N.ltb_spec n (lo + len)) as [H2|H2]; try lia; cbn [andb negb orb].
    + rewrite andb_false_r, andb_true_r. reflexivity.
    + rewrite andb_true_r, andb_false_r, orb_false_r. reflexivity.
  - rewrite !N.shiftl_spec_low by exact H. cbn [andb negb orb].
    rewrite andb_true_r, orb_false_r. reflexivity.
Qed.

(** a value below 2^k has no bit at or above k *)
Lemma testbit_small w k n : w < 2 ^ k -> k <= n -> N.testbit w n = false.
Proof.
  intros Hw Hn.
  destruct (N.eq_dec w 0) as [->|Hz]; [apply N.bits_0|].
  apply N.bits_above_log2.
  apply N.log2_lt_pow2 in Hw; [lia|lia].
Qed.

Lemma lt_pow2_bits w k : (forall n, k <= n -> N.testbit w n = false) -> w < 2 ^ k.
Proof.
  intros H.
  destruct (N.eq_dec w 0) as [->|Hz]; [apply N.neq_0_lt_0, N.pow_nonzero; lia|].
  apply N.log2_lt_pow2; [lia|].
  destruct (N.lt_ge_cases (N.log2 w) k) as [Hl|Hl]; [exact Hl|].
  specialize (H _ Hl). rewrite N.bit_log2 in H by exact Hz. discriminate.
Qed.

Lemma nib_lt16 w i : nib w i < 16.
Proof.
  change 16 with (2 ^ 4). apply lt_pow2_bits. intros n Hn.
  rewrite testbit_nib. destruct (N.ltb_spec n 4); [lia|]. apply andb_false_r.
Qed.

Lemma nib_small c : c < 16 -> nib c 0 = c.
Proof.
  intros Hc. apply N.bits_inj. intros n. rewrite testbit_nib.
  replace (n + 4 * 0) with n by lia.
  destruct (N.ltb_spec n 4) as [H|H]; [apply andb_true_r|].
  rewrite andb_false_r. symmetry. apply (testbit_small c 4); [exact Hc|exact H].
Qed.

(** word equality from nibble equality *)
Lemma nib_ext a b :
  a < w64 -> b < w64 -> (forall i, i < 16 -> nib a i = nib b i) -> a = b.
Proof.
  intros Ha Hb H. apply N.bits_inj. intros n.
  destruct (N.lt_ge_cases n 64) as [Hn|Hn].
  - pose proof (H (n / 4)) as Hi.
    assert (n / 4 < 16) as Hlt by (apply N.div_lt_upper_bound; lia).
    specialize (Hi Hlt).
    assert (N.testbit (nib a (n / 4)) (n mod 4) = N.testbit (nib b (n / 4)) (n mod 4)) as E
      by (rewrite Hi; reflexivity).
    rewrite !testbit_nib in E.
    assert (n mod 4 < 4) as Hm by (apply N.mod_lt; lia).
    replace (n mod 4 + 4 * (n / 4)) with n in E by (pose proof (N.div_mod' n 4); lia).
    destruct (N.ltb_spec (n mod 4) 4); [|lia].
    rewrite !andb_true_r in E. exact E.
  - rewrite (testbit_small a 64), (testbit_small b 64); auto.
Qed.
