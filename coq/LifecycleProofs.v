(** * LifecycleProofs *)
From Coq Require Import List Bool PeanoNat Lia.
From Yk Require Import LifecycleDefs.

(** invariant of the repaired init: while running, the flags are down and both loops are alive *)
Definition LInv (s : lc) : Prop :=
  running s = true -> ep_flag s = false /\ gc_flag s = false /\ ep_alive s = true /\ gc_alive s = true.

Lemma linv_init : LInv lc_init.
Proof. unfold LInv, lc_init. cbn. discriminate. Qed.

Lemma linv_step s e s' : LInv s -> lstep true s e = Some s' -> LInv s'.
Proof.
  unfold LInv. intros H Hs. destruct e; cbn in Hs.
  - destruct (running s); [discriminate|]. injection Hs as <-. cbn. auto.
  - destruct (running s); cbn in Hs; [|discriminate]. injection Hs as <-. cbn. discriminate.
  - injection Hs as <-. cbn. exact H.
  - destruct (ep_alive s) eqn:Ea; cbn in Hs; [|discriminate]. injection Hs as <-. cbn.
    intros Hr. destruct (H Hr) as (A & B & C & D). rewrite A. cbn. auto.
  - destruct (gc_alive s) eqn:Ea; cbn in Hs; [|discriminate]. injection Hs as <-. cbn.
    intros Hr. destruct (H Hr) as (A & B & C & D). rewrite B. cbn. auto.
  - injection Hs as <-. cbn. exact H.
  - injection Hs as <-. cbn. exact H.
  - injection Hs as <-. cbn. exact H.
Qed.

Lemma linv_run tr : forall s s', LInv s -> lrun true s tr = Some s' -> LInv s'.
Proof.
  induction tr as [|e r IH]; intros s s' H Hr; cbn in Hr.
  - injection Hr as <-. exact H.
  - destruct (lstep true s e) as [s1|] eqn:E; [|discriminate].
    apply (IH s1 s'); [apply (linv_step s e); assumption|exact Hr].
Qed.

(** every cycle behaves like the first: in any history, while the system is running the
    background loops have not exited (they keep advancing the epoch and collecting) *)
Theorem threads_alive_while_running tr s :
  lrun true lc_init tr = Some s -> running s = true -> ep_alive s = true /\ gc_alive s = true.
Proof.
  intros Hr Hrun. destruct (linv_run tr lc_init s linv_init Hr Hrun) as (_ & _ & A & B). auto.
Qed.

(** ... so the loops can always take another iteration while running (progress) *)
Theorem iteration_enabled_while_running tr s :
  lrun true lc_init tr = Some s -> running s = true ->
  exists s1 s2, lstep true s LEpochIter = Some s1 /\ ep_iters s1 = S (ep_iters s) /\ ep_alive s1 = true /\
                lstep true s LGcIter = Some s2 /\ gc_iters s2 = S (gc_iters s) /\ gc_alive s2 = true.
Proof.
  intros Hr Hrun. destruct (linv_run tr lc_init s linv_init Hr Hrun) as (A & B & C & D).
  cbn. rewrite C, D, A, B. cbn. eexists. eexists. repeat split; reflexivity.
Qed.

(** after fin() -- whatever happened in the cycle, sessions left open included -- a new
    init() yields an empty system with every slot free *)
Theorem fresh_after_fin tr s s1 s2 :
  lrun true lc_init tr = Some s -> lstep true s LFin = Some s1 -> lstep true s1 LInit = Some s2 ->
  storages s2 = 0 /\ slots_busy s2 = 0 /\ running s2 = true /\ ep_iters s2 = 0.
Proof.
  intros _ H1 H2. cbn in H1. destruct (running s); cbn in H1; [|discriminate]. injection H1 as <-.
  cbn in H2. injection H2 as <-. cbn. auto.
Qed.

Theorem destroy_leaves_usable tr s s1 :
  lrun true lc_init tr = Some s -> lstep true s LDestroy = Some s1 ->
  storages s1 = 0 /\ running s1 = running s /\ ep_alive s1 = ep_alive s /\ gc_alive s1 = gc_alive s.
Proof. intros _ H. cbn in H. injection H as <-. cbn. auto. Qed.

(** the pinned source: the second cycle's epoch thread exits after one iteration *)
Theorem original_init_refuted :
  exists tr s, lrun false lc_init tr = Some s /\ running s = true /\ ep_alive s = false /\ ep_iters s = 1.
Proof.
  exists [LInit; LFin; LInit; LEpochIter]. eexists. split; [vm_compute; reflexivity|].
  cbn. auto.
Qed.
