(** * C01 -- point operations on one border node (get / put / unique put /
    remove), one shared-memory access per step, any number of threads, any
    interleaving, with the repaired reader ([fixed = true]): get is
    linearizable inside its interval and never returns a null value, the
    writers take effect atomically under the lock, the lock bit is a mutex and
    the unlocked node represents the abstract map.  The pinned reader
    ([fixed = false]) is refuted.  [t_seen] = the bindings the operation's key
    had since the invocation (ghost, BorderDefs.v).
    Property theorems only; each closed by [exact]. *)
From Coq Require Import NArith List PeanoNat.
From Yk Require Import BorderDefs BorderProofs.
Local Open Scope N_scope.

(** (G) a finished get returns either a non-null value that was the binding of
    its key at some instant of its interval, or NOT_EXIST and the key was
    unbound at some instant of its interval *)
Theorem C01_border_get_interval : forall tr s t k r,
  brun true binit tr = Some s ->
  t_op (b_thr s t) = Some (OpGet k) -> t_pc (b_thr s t) = PDone r ->
  (exists w, r = ROkVal w /\ w <> 0 /\ In (Some w) (t_seen (b_thr s t))) \/
  (r = RNotExist /\ In None (t_seen (b_thr s t))).
Proof. exact border_get_interval. Qed.
Print Assumptions C01_border_get_interval.

(** (R)+(U) results of remove / put / unique put are justified by a binding
    inside the interval; the three linearization steps run under the lock and
    really unbind a bound key / overwrite a bound key / bind an unbound key *)
Theorem C01_border_writers_atomic : forall tr s t,
  brun true binit tr = Some s ->
  let th := b_thr s t in
  (forall k r, t_op th = Some (OpRem k) -> t_pc th = PDone r ->
     (r = ROk \/ r = RNotFound) /\ In None (t_seen th)) /\
  (forall k v r, t_op th = Some (OpPut k v) -> t_pc th = PDone r ->
     r = ROk /\ In (Some v) (t_seen th)) /\
  (forall k v r, t_op th = Some (OpUput k v) -> t_pc th = PDone r ->
     (r = ROk /\ In (Some v) (t_seen th)) \/ (r = RUnique /\ exists w, In (Some w) (t_seen th))) /\
  (forall sl rk, t_pc th = PClear sl rk ->
     exists k, t_op th = Some (OpRem k) /\ b_locked s = true /\
               bm s k = Some (b_lvs s sl) /\ b_lvs s sl <> 0) /\
  (forall sl, t_pc th = POverwrite sl ->
     exists o, t_op th = Some o /\ b_locked s = true /\
               bm s (op_key o) = Some (b_lvs s sl) /\ b_lvs s sl <> 0) /\
  (forall sl r, t_pc th = PStorePerm sl r ->
     exists o, t_op th = Some o /\ b_locked s = true /\ bm s (op_key o) = None).
Proof. exact border_writers_atomic. Qed.
Print Assumptions C01_border_writers_atomic.

(** (M) mutual exclusion and representation *)
Theorem C01_border_lock_and_representation : forall tr s,
  brun true binit tr = Some s ->
  (b_locked s = true <->
   exists t, in_cs (t_pc (b_thr s t)) = true /\
             forall t', in_cs (t_pc (b_thr s t')) = true -> t' = t) /\
  (b_locked s = false ->
     NoDup (b_perm s) /\
     (forall i j, (i < j < length (b_perm s))%nat ->
        b_keys s (nth i (b_perm s) 0%nat) < b_keys s (nth j (b_perm s) 0%nat)) /\
     (forall sl, In sl (b_perm s) -> b_lvs s sl <> 0) /\
     (forall k, bm s k = match find_rank (b_keys s) (b_perm s) k 0 with
                         | Some (_, sl) => Some (b_lvs s sl)
                         | None => None
                         end) /\
     b_insdel s = false) /\
  (forall t, in_cs (t_pc (b_thr s t)) = true -> b_insdel s = in_ins (t_pc (b_thr s t))) /\
  NoDup (b_perm s) /\
  (forall k, bm s k = match find_rank (b_keys s) (b_perm s) k 0 with
                      | Some (_, sl) => if b_lvs s sl =? 0 then None else Some (b_lvs s sl)
                      | None => None
                      end).
Proof. exact border_lock_and_representation. Qed.
Print Assumptions C01_border_lock_and_representation.

(** the ghost list is what the comments say: it contains the current binding
    and only grows while the operation is in flight (for both readers) *)
Theorem C01_seen_current : forall tr s t o,
  brun true binit tr = Some s -> t_op (b_thr s t) = Some o ->
  In (bm s (op_key o)) (t_seen (b_thr s t)).
Proof. exact border_seen_current. Qed.
Print Assumptions C01_seen_current.

Theorem C01_seen_grows : forall fixed s e s' t,
  bstep fixed s e = Some s' ->
  (forall o, e <> BInvoke t o) -> e <> BReturn t ->
  exists l, t_seen (b_thr s' t) = l ++ t_seen (b_thr s t).
Proof. exact seen_grows. Qed.
Print Assumptions C01_seen_grows.

(** (X) finding F3: the pinned reader returns OK with a null pointer although
    null was never bound to the key *)
Theorem C01_original_reader_null_refuted :
  exists tr s t, brun false binit tr = Some s /\
    t_op (b_thr s t) = Some (OpGet 5) /\ t_pc (b_thr s t) = PDone (ROkVal 0) /\
    ~ In (Some 0) (t_seen (b_thr s t)).
Proof. exact original_reader_refuted. Qed.
Print Assumptions C01_original_reader_null_refuted.

(** the hypotheses are satisfiable on a non-trivial run: three threads; the
    get of thread 1 is invoked before the insert of key 5 by thread 0 takes
    effect, is invalidated by that insert (counter 0 -> 1), searches again,
    fetches the value word, is overtaken by the complete remove of thread 2
    (which does not touch the counter) and returns the value 7 *)
Definition C01_trace : list bev :=
  [BInvoke 1 (OpGet 5); BInvoke 0 (OpPut 5 7); BInvoke 2 (OpRem 5)] ++
  repeat (BStep 1) 2 ++ repeat (BStep 0) 11 ++ repeat (BStep 1) 6 ++
  repeat (BStep 2) 10 ++ [BStep 1].

Example C01_nonvacuous :
  match brun true binit C01_trace with
  | Some s =>
    t_op (b_thr s 1%nat) = Some (OpGet 5) /\ t_pc (b_thr s 1%nat) = PDone (ROkVal 7) /\
    t_seen (b_thr s 1%nat) = [None; Some 7; None] /\
    t_pc (b_thr s 0%nat) = PDone ROk /\ t_pc (b_thr s 2%nat) = PDone ROk /\
    bm s 5 = None /\ b_vins s = 1 /\ b_locked s = false
  | None => False
  end.
Proof. vm_compute. repeat split. Qed.

(** ** Lookups across structure modifications (ChainGetProofs): the search of get / put / remove on a layer whose
    leaf chain is modified by inserts, removes, SPLITS and UNLINKS in any interleaving answers with the presence of
    the key at some instant between invocation and response (node granularity; the slot-level protocol inside one
    border is BorderProofs above). *)
From Yk Require Import ChainDefs ChainGetDefs ChainGetProofs.

Theorem C01_chain_get_linearizable : forall kss evs s b,
  kss_ok kss = true -> grun (ginit kss) evs = Some s ->
  g_pc (g_get s) = GDone b -> In b (g_seen s).
Proof. exact chain_get_linearizable. Qed.
Print Assumptions C01_chain_get_linearizable.

(** the ghost [g_seen] starts with the presence at the current instant *)
Theorem C01_chain_get_seen_head : forall kss evs s,
  kss_ok kss = true -> grun (ginit kss) evs = Some s -> searching (g_get s) = true ->
  hd_error (g_seen s) = Some (present (g_key (g_get s)) (g_c s)).
Proof. exact chain_get_seen_head. Qed.
Print Assumptions C01_chain_get_seen_head.

Example C01_chain_get_nonvacuous : exists evs s, grun (ginit [[10]; [20]]) evs = Some s /\
  g_pc (g_get s) = GDone true /\ (1 <=? g_restarts (g_get s)) = true /\ In false (g_seen s).
Proof. exact chain_get_nonvacuous2. Qed.
