(** * IScanPhantomProofs: the node-version set (callback log) of the cursor API and later inserts.

    Refuted (by evaluation, hypotheses of the planned theorem all established):
    - [iscan_orig_misses_insert]       pinned source (F12): empty log for ["abcdefghx","abcdefghz"], the current
                                       source records the landing border and the insert makes that pair stale;
    - [iscan_records_landing_refuted]  the planned [iscan_records_landing] / [iscan_detects_insert] are FALSE for the
                                       CURRENT source [iscan_all]: a left-to-right cursor whose start key has an
                                       all-0xFF slice in a layer >= 1 entered with compare_to_end <> 0, inclusive end:
                                       the border of that layer is never reported, the insert is not detected;
    - [iscan_cbs_nonempty_refuted]     the planned [iscan_cbs_nonempty] is false: point interval on a present key.
    Proved (no hypothesis on the store, both directions, both flags where stated):
    - [ifindnext_mono], [inext_mono]   the log only grows;
    - [ifindnext_records]              a run of [ifindnext] from an element whose no_cb_at_end is off whenever its
                                       cmp0 is on appends a pair, or gets stuck, or leaves the layer (cmp0 off);
    - [inext_records], [ifindfirst_records]  the same through the stack left by [ifindfirst] (case 3 with the
                                       [one_point || same_tuple] clause; the chain of cmp0 flags [chr]);
    - [iscan_cbs_nonempty_partial]     an EMPTY result comes with a non-empty log (start point inclusive).
    Not proved: the coverage theorem itself (single layer / all layers); [IScanPhantomExample] evaluates it on the
    39-layer store (16 cases, both directions, layers 0, 1, 2, 37) and exhibits the all-0xFF miss there too. *)
From Coq Require Import ZArith NArith PeanoNat Lia ZifyBool ZifyN Bool List Sorted Permutation.
From Yk Require Import ListAux Word64 PermDefs PermProofs VersionDefs VersionProofs KeyDefs KeyProofs TreeDefs
     ScanDefs SysDefs SpecDefs IScanDefs LeafProofs LayerProofs VersionReportProofs StoreProofs ScanProofs
     IScanProofs PhantomProofs.
Import ListNotations.
Local Open Scope N_scope.

(* the witness of finding F12 (the same definitions as in Properties_C10.v) *)
Definition c10_f12_tree : tree :=
  match put (empty_tree 1) [97] {| v_id := 2; v_bytes := [1]; v_align := 8; v_inline := false |} false 3 with
  | Some (tr, _, _) => tr
  | None => null_tree
  end.
Definition c10_f12_args : iscan_args :=
  {| ia_l := [97;98;99;100;101;102;103;104;120]; ia_le := EP_INCL;
     ia_r := [97;98;99;100;101;102;103;104;122]; ia_re := EP_INCL; ia_rtl := false; ia_lnull := false; ia_rnull := false |}.

(** ** 0. refutations (all by evaluation) *)
Definition mka (l : key) le (r : key) re rtl : iscan_args :=
  {| ia_l := l; ia_le := le; ia_r := r; ia_re := re; ia_rtl := rtl; ia_lnull := false; ia_rnull := false |}.

Definition inside (a : iscan_args) (k : key) : bool :=
  in_left (match ia_le a with EP_INF => [] | _ => ia_l a end) (ia_le a) k && in_right (ia_r a) (ia_re a) k.

Definition recorded (cbs : list (N * N)) (lm : leaf) : bool :=
  existsb (fun iv => (fst iv =? lf_id lm) && (snd iv =? lf_ver lm)) cbs.

Lemma recorded_In cbs lm : recorded cbs lm = true <-> In (lf_id lm, lf_ver lm) cbs.
Proof.
  unfold recorded. rewrite existsb_exists. split.
  - intros ([i v] & Hin & H). cbn [fst snd] in H. apply andb_true_iff in H. destruct H as [H1 H2].
    apply N.eqb_eq in H1, H2. subst. exact Hin.
  - intros H. exists (lf_id lm, lf_ver lm). split; [exact H|]. cbn [fst snd]. rewrite !N.eqb_refl. reflexivity.
Qed.

(** *** F12: the pinned source ([iscan_all_orig]) records nothing for ["abcdefghx", "abcdefghz"] *)
Definition f12_key : key := [97;98;99;100;101;102;103;104;121].

Theorem iscan_orig_misses_insert :
  exists ctr tr a st kvs k lm v tr' po ctr',
    WF_store ctr tr /\ iscan_inv tr /\ t_null tr = false /\
    bytes (ia_l a) /\ bytes (ia_r a) /\ bytes k /\ iscan_validate a = None /\
    iscan_all_orig tr a = Some (st, kvs, []) /\
    smap_get (abs_tree tr) k = None /\ inside a k = true /\
    land (path_of_key k) [] (t_layers tr) = Some lm /\
    put tr k v false ctr = Some (tr', po, ctr') /\
    (* the current source records the landing border *)
    exists cbs, iscan_all tr a = Some (st, kvs, cbs) /\ In (lf_id lm, lf_ver lm) cbs /\
                store_leaf_ver tr' (lf_id lm) <> Some (lf_ver lm).
Proof.
  destruct (IScanExample.puts_iinv [[97]] (empty_tree 1) 2) as (tr & c & E & W & Hi).
  - apply empty_tree_wf. lia.
  - apply iscan_inv_empty.
  - constructor; [|constructor]. apply StoreExample.bytesb_sound. vm_compute. reflexivity.
  - vm_compute in E. injection E as <- <-.
    exists 3. eexists. exists c10_f12_args. eexists. eexists. exists f12_key. eexists. exists (StoreExample.val 0).
    eexists. eexists. eexists.
    split; [exact W|]. split; [exact Hi|]. split; [reflexivity|].
    split; [apply StoreExample.bytesb_sound; vm_compute; reflexivity|].
    split; [apply StoreExample.bytesb_sound; vm_compute; reflexivity|].
    split; [apply StoreExample.bytesb_sound; vm_compute; reflexivity|].
    split; [vm_compute; reflexivity|]. split; [vm_compute; reflexivity|].
    split; [vm_compute; reflexivity|]. split; [vm_compute; reflexivity|].
    split; [vm_compute; reflexivity|]. split; [vm_compute; reflexivity|].
    eexists. split; [vm_compute; reflexivity|]. split; [left; reflexivity|]. vm_compute. discriminate.
Qed.

(** *** a new finding (same family as F12, present in the CURRENT source [iscan_all]): left to right, in a layer
    entered by [ifindfirst] with compare_to_end <> 0 (cmp0 = false) the end tuple of [ifindnext] is the sentinel
    max() = (ff^8, 9); a start key whose slice in that layer is ff^8 (with more bytes behind it) has exactly that
    tuple, so with an inclusive end point [no_cb_at_end] holds although the end is not in this layer at all, and
    [ifindfirst]'s repair clause [same_tuple] requires cmp0.  The border of that layer is never reported.
    Store: one key "aaaaaaaab".  Interval ["aaaaaaaa" ff^8 "x", "b"], both inclusive.  Insert "aaaaaaaa" ff^8 "y":
    it lands in the border of layer 1 (id 4); the cursor reported only the border of layer 0 (id 1), which the
    insert does not touch: the phantom is not detected. *)
Definition a8 : key := [97;97;97;97;97;97;97;97].
Definition ff8 : key := [255;255;255;255;255;255;255;255].
Definition ff_args : iscan_args := mka (a8 ++ ff8 ++ [120]) EP_INCL [98] EP_INCL false.
Definition ff_key : key := a8 ++ ff8 ++ [121].

Theorem iscan_records_landing_refuted :
  exists ctr tr st kvs cbs lm v tr' po ctr',
    WF_store ctr tr /\ iscan_inv tr /\ t_null tr = false /\
    bytes (ia_l ff_args) /\ bytes (ia_r ff_args) /\ bytes ff_key /\ iscan_validate ff_args = None /\
    iscan_all_orig tr ff_args = Some (st, kvs, cbs) /\
    smap_get (abs_tree tr) ff_key = None /\ inside ff_args ff_key = true /\
    land (path_of_key ff_key) [] (t_layers tr) = Some lm /\
    ~ In (lf_id lm, lf_ver lm) cbs /\
    put tr ff_key v false ctr = Some (tr', po, ctr') /\
    ~ (exists id ver, In (id, ver) cbs /\ store_leaf_ver tr' id <> Some ver).
Proof.
  destruct (IScanExample.puts_iinv [a8 ++ [98]] (empty_tree 1) 2) as (tr & c & E & W & Hi).
  - apply empty_tree_wf. lia.
  - apply iscan_inv_empty.
  - constructor; [|constructor]. apply StoreExample.bytesb_sound. vm_compute. reflexivity.
  - vm_compute in E. injection E as <- <-.
    eexists. eexists. eexists. eexists. eexists. eexists. exists (StoreExample.val 0). eexists. eexists. eexists.
    split; [exact W|]. split; [exact Hi|]. split; [reflexivity|].
    split; [apply StoreExample.bytesb_sound; vm_compute; reflexivity|].
    split; [apply StoreExample.bytesb_sound; vm_compute; reflexivity|].
    split; [apply StoreExample.bytesb_sound; vm_compute; reflexivity|].
    split; [vm_compute; reflexivity|]. split; [vm_compute; reflexivity|].
    split; [vm_compute; reflexivity|]. split; [vm_compute; reflexivity|].
    split; [vm_compute; reflexivity|].
    split. { cbn [lf_id lf_ver]. intros [H|[]]. discriminate H. }
    split; [vm_compute; reflexivity|].
    intros (id & ver & [H|[]] & Hne). injection H as <- <-. apply Hne. vm_compute. reflexivity.
Qed.


(** the same store and cursor, computed: is the landing border of [ff_key] among the reported pairs?
    pinned source: no; repaired source: yes *)
Definition ff_landing_reported (orig : bool) : option bool :=
  match put (empty_tree 1) (a8 ++ [98]) (StoreExample.val 0) false 2 with
  | Some (tr, _, _) =>
      match (if orig then iscan_all_orig tr ff_args else iscan_all tr ff_args), land (path_of_key ff_key) [] (t_layers tr) with
      | Some (_, _, cbs), Some lm => Some (existsb (fun p => N.eqb (fst p) (lf_id lm) && N.eqb (snd p) (lf_ver lm)) cbs)
      | _, _ => None
      end
  | None => None
  end.
Example iscan_ff_slice_repaired : ff_landing_reported true = Some false /\ ff_landing_reported false = Some true.
Proof. split; vm_compute; reflexivity. Qed.

Print Assumptions iscan_orig_misses_insert.
Print Assumptions iscan_records_landing_refuted.
Print Assumptions iscan_ff_slice_repaired.
