(** * IScanProofs: the cursor API (iscan_open / iscan_next), driven to its end, delivers exactly
    the entries of the interval, in the direction of the cursor.

    Results (all closed under the global context):
    - [iscan_validate_spec]   the argument checks of the cursor = [spec_scan_args_ok] of the same
                              record read as a scan() record with max_size 0 and left-to-right
                              ([iscan_to_scan]): the cursor has no right-to-left restriction;
    - [iscan_refines_all_partial]  for every argument record (both directions, all endpoint kinds),
                              under [WF_store] and [iscan_live]: [iscan_all] terminates within its
                              fuel, rejects exactly the records [iscan_validate] rejects, and
                              otherwise delivers [spec_iscan_list (abs_tree tr) a] (keys = full_key,
                              values, order).  [spec_iscan_list] is the specification as planned: the
                              model normalises an INF left end point to ([], INCL), which is the same
                              interval; right to left the right end is the start and the left end the
                              end; an INF right end is "no end" left to right (end tuple max() in
                              every layer) and "start at max()" right to left, its key is ignored;
    - the hypothesis is NOT [scan_inv]: [scan_inv] is neither needed (the descents of the cursor
      with max()/sup() reach the last border whatever the separators are) nor sufficient:
      [iscan_findfirst] stops at a border flagged deleted-and-root in EVERY layer, while
      [scan_inv] (via [live_ok]) only speaks about layer 0.
      [IScanCounterexample.iscan_refines_all_false_from_scan_inv]: the statement with
      [WF_store] and [scan_inv] alone is false (a well-formed store with [scan_inv], a flagged
      border in layer 1: the cursor returns nothing, the specification one entry);
    - [iscan_live]            = a border flagged deleted-and-root only occurs in the empty store,
                              in every layer (what is excluded: unreachable stores with such a
                              border in a non-empty layer);
    - [iscan_inv] ([live_all]) no border flagged deleted but the one of the empty store: holds on the
                              null and on the empty store and is preserved by put and remove
                              ([iscan_inv_null], [iscan_inv_empty], [put_iscan_inv],
                              [remove_iscan_inv]), implies [iscan_live];
    - [iscan_refines_inv]     the refinement on every store with [WF_store] and [iscan_inv], i.e. every
                              store reached by puts and removes;
    - [IScanExample]          the hypotheses hold on the 39-layer store of [ScanExample] and on two
                              stores obtained from it by removes (one of them emptied: flagged root
                              border); 468 + 108 + 108 argument records are evaluated.

    Structure of the proof (direction-generic: [rtl] is a section variable): the stack denotes a
    position in the in-order enumeration of the trie; [rems st] = what is still to come after it
    (per layer: the entries beyond the element's key, [pend], with everything under them);
    [ifindfirst_spec]: the descent leaves [rems] = the part of the enumeration on the right side
    of the start point; [ifindnext_spec] / [inext_spec]: one step delivers the head of [rems] if
    it is inside the end point and otherwise ends with everything left outside;
    [collect_spec]: induction on [rems]; fuel: [pos_cost_bound], [clayer_count]. *)
From Coq Require Import ZArith NArith PeanoNat Lia ZifyBool ZifyN Bool List Sorted Permutation.
From Yk Require Import ListAux Word64 PermDefs PermProofs VersionDefs VersionProofs KeyDefs KeyProofs TreeDefs
     ScanDefs SysDefs SpecDefs IScanDefs LeafProofs LayerProofs VersionReportProofs StoreProofs ScanProofs.
Import ListNotations.
Local Open Scope N_scope.

(** ** 0. the specification *)

(* the cursor, driven to its end, delivers exactly the interval's entries: ascending left-to-right,
   descending right-to-left, each with its value, full_key = the entry's key *)
Definition spec_iscan_list (m : smap) (a : iscan_args) : list (key * aval) :=
  let l := match ia_le a with EP_INF => [] | _ => ia_l a end in       (* an INF left endpoint ignores its key *)
  let sel := filter (fun kv => in_left l (ia_le a) (fst kv) && in_right (ia_r a) (ia_re a) (fst kv)) m in
  if ia_rtl a then rev sel else sel.

(** ** 1. validation: the argument checks of the cursor are those of scan() without the
    right-to-left restriction *)
Definition iscan_to_scan (a : iscan_args) : scan_args :=
  {| sa_l := ia_l a; sa_le := ia_le a; sa_r := ia_r a; sa_re := ia_re a; sa_max := 0%nat; sa_rtl := false;
     sa_lnull := ia_lnull a; sa_rnull := ia_rnull a |}.

Lemma iscan_validate_scan a : iscan_validate a = scan_validate (iscan_to_scan a).
Proof.
  unfold iscan_validate, scan_validate, iscan_to_scan. cbn [sa_l sa_le sa_r sa_re sa_max sa_rtl sa_lnull sa_rnull].
  destruct ((ia_lnull a && negb (Nat.eqb (length (ia_l a)) 0)) || (ia_rnull a && negb (Nat.eqb (length (ia_r a)) 0)));
    [reflexivity|].
  destruct (check_empty_scan_range (ia_l a) (ia_le a) (ia_r a) (ia_re a)); reflexivity.
Qed.

Theorem iscan_validate_spec a :
  (iscan_validate a = None <-> spec_scan_args_ok (iscan_to_scan a) = true) /\
  (spec_scan_args_ok (iscan_to_scan a) = false -> iscan_validate a = Some St_ERR_BAD_USAGE) /\
  (forall s, iscan_validate a = Some s -> s = St_ERR_BAD_USAGE).
Proof.
  rewrite iscan_validate_scan. destruct (scan_validate_spec (iscan_to_scan a)) as [V1 V2].
  split; [exact V1|]. split; [exact V2|].
  intros s E. destruct (spec_scan_args_ok (iscan_to_scan a)) eqn:Eok.
  - rewrite (proj2 V1 eq_refl) in E. discriminate.
  - rewrite (V2 eq_refl) in E. injection E as <-. reflexivity.
Qed.

(** what a validated argument record guarantees (used by the descent) *)
Lemma iscan_validate_none a :
  iscan_validate a = None ->
  let l := match ia_le a with EP_INF => [] | _ => ia_l a end in
  (ia_re a <> EP_INF -> lex_lt (ia_r a) l = false) /\
  (ia_le a <> EP_EXCL -> in_right (ia_r a) (ia_re a) l = true) /\
  (ia_re a = EP_INCL -> in_left l (ia_le a) (ia_r a) = true).
Proof.
  intros V l. unfold iscan_validate in V.
  destruct ((ia_lnull a && negb (Nat.eqb (length (ia_l a)) 0)) || (ia_rnull a && negb (Nat.eqb (length (ia_r a)) 0)));
    [discriminate|].
  rewrite check_empty_spec in V.
  match type of V with (match (if ?c then _ else _) with _ => _ end) = _ => destruct c eqn:C; [|discriminate] end.
  clear V. unfold l. clear l.
  destruct (ia_re a) eqn:Ere, (ia_le a) eqn:Ele; cbn [ep_eqb andb in_left in_right] in *;
    rewrite ?andb_false_r, ?orb_false_r, ?andb_true_r in C;
    repeat split; try congruence; intros _; rewrite ?lex_lt_nil_r; try reflexivity.
  all: try (apply lex_lt_asym; exact C).
  all: try exact C.
  all: try (rewrite (lex_lt_asym _ _ C); reflexivity).
  all: try (destruct (ia_r a); [discriminate C|reflexivity]).
  all: try (apply orb_true_iff in C; destruct C as [C|C];
            [try (apply lex_lt_asym; exact C); rewrite (lex_lt_asym _ _ C); reflexivity
            |apply key_eqb_eq in C; rewrite C; rewrite lex_lt_irrefl; reflexivity]).
Qed.

(** ** 2. the special tuples of the cursor *)
Lemma kt_lt_min x : kt_lt kt_min x = negb (kl x =? 0).
Proof. unfold kt_lt, kt_min. cbn [kl ks]. destruct (kl x =? 0); reflexivity. Qed.

Lemma shiftr_max_ge s sh : s < 2 ^ 64 -> N.shiftr s sh <= N.shiftr 18446744073709551615 sh.
Proof.
  intros H. rewrite !N.shiftr_div_pow2. apply N.div_le_mono; [apply N.pow_nonzero; discriminate|].
  change (2 ^ 64) with 18446744073709551616 in H. lia.
Qed.

Lemma memcmp_max_l s n : s < 2 ^ 64 -> memcmp_slice 18446744073709551615 s n <> Lt3.
Proof.
  intros H. unfold memcmp_slice, cmpN. cbv zeta.
  pose proof (shiftr_max_ge s (8 * (8 - n)) H) as L.
  destruct (N.compare_spec (N.shiftr 18446744073709551615 (8 * (8 - n))) (N.shiftr s (8 * (8 - n))));
    try discriminate. lia.
Qed.

Lemma memcmp_max_r s n : s < 2 ^ 64 -> memcmp_slice s 18446744073709551615 n <> Gt3.
Proof.
  intros H. unfold memcmp_slice, cmpN. cbv zeta.
  pose proof (shiftr_max_ge s (8 * (8 - n)) H) as L.
  destruct (N.compare_spec (N.shiftr s (8 * (8 - n))) (N.shiftr 18446744073709551615 (8 * (8 - n))));
    try discriminate. lia.
Qed.

(** every tuple a node can hold is below sup() *)
Lemma kt_lt_sup x : kt_wf x = true -> kt_lt x kt_sup = true.
Proof.
  intros Hw. apply kt_wf_spec in Hw. destruct Hw as (H9 & H64 & _).
  unfold kt_lt, kt_sup. cbn [kl ks]. change (10 =? 0) with false. cbv iota.
  destruct (N.eqb_spec (kl x) 0) as [E|E]; [reflexivity|].
  unfold memcmp_tuple. cbn [ks kl].
  destruct (N.leb_spec (N.min (kl x) 10) 8) as [L|L].
  - pose proof (memcmp_max_r (ks x) (N.min (kl x) 10) H64) as M.
    destruct (memcmp_slice (ks x) 18446744073709551615 (N.min (kl x) 10)); [reflexivity| |contradiction].
    apply N.ltb_lt. lia.
  - pose proof (memcmp_max_r (ks x) 8 H64) as M.
    destruct (memcmp_slice (ks x) 18446744073709551615 8); [reflexivity| |contradiction].
    unfold cmpN. destruct (N.compare_spec (kl x) 10); [lia|reflexivity|lia].
Qed.

Lemma route_probe_sup s : kt_wf s = true -> route_probe kt_sup s = false.
Proof.
  intros Hw. apply kt_wf_spec in Hw. destruct Hw as (H9 & H64 & _).
  unfold route_probe, kt_sup. cbv zeta. cbn [ks kl].
  pose proof (memcmp_max_l (ks s) (N.min (N.min 10 (kl s)) 8) H64) as M.
  destruct (memcmp_slice 18446744073709551615 (ks s) (N.min (N.min 10 (kl s)) 8)); [contradiction| |reflexivity].
  apply N.ltb_ge. lia.
Qed.

Lemma kt_min_wf : kt_wf kt_min = true. Proof. reflexivity. Qed.
Lemma kt_max_wf : kt_wf kt_max = true. Proof. reflexivity. Qed.

Lemma canon_max x : kt_wf x = true -> canon_lt kt_max x = false.
Proof.
  intros H. apply kt_wf_spec in H. destruct H as (H1 & H2 & _). unfold canon_lt, kt_max. cbn [ks kl].
  change (2 ^ 64) with 18446744073709551616 in H2. lia.
Qed.

Lemma canon_min x : canon_lt x kt_min = false.
Proof. unfold canon_lt, kt_min. cbn [ks kl]. lia. Qed.

(** ** 3. the border chain: [leaf_by_id], [neighbour] *)
Lemma leaf_by_id_spec : forall L lf, NoDup (map lf_id L) -> In lf L -> leaf_by_id L (lf_id lf) = Some lf.
Proof.
  induction L as [|a L IH]; intros lf Hnd Hin; [destruct Hin|].
  cbn [leaf_by_id]. cbn [map] in Hnd. apply NoDup_cons_iff in Hnd. destruct Hnd as [Ha Hnd].
  destruct (N.eqb_spec (lf_id a) (lf_id lf)) as [E|E].
  - destruct Hin as [->|Hin]; [reflexivity|]. exfalso. apply Ha. rewrite E. apply in_map. exact Hin.
  - destruct Hin as [->|Hin]; [contradiction|]. apply IH; assumption.
Qed.

Lemma neighbour_fwd : forall A lf B prev, NoDup (map lf_id (A ++ lf :: B)) ->
  neighbour (A ++ lf :: B) (lf_id lf) prev false = hd_error B.
Proof.
  induction A as [|a A IH]; intros lf B prev Hnd; cbn [app neighbour].
  - rewrite N.eqb_refl. destruct B; reflexivity.
  - cbn [app map] in Hnd. apply NoDup_cons_iff in Hnd. destruct Hnd as [Ha Hnd].
    destruct (N.eqb_spec (lf_id a) (lf_id lf)) as [E|E]; [|apply IH; exact Hnd].
    exfalso. apply Ha. rewrite E. apply in_map. apply in_or_app. right. left. reflexivity.
Qed.

Lemma neighbour_rtl : forall A lf B prev, NoDup (map lf_id (A ++ lf :: B)) ->
  neighbour (A ++ lf :: B) (lf_id lf) prev true = match rev A with [] => prev | x :: _ => Some x end.
Proof.
  induction A as [|a A IH]; intros lf B prev Hnd; cbn [app neighbour].
  - rewrite N.eqb_refl. reflexivity.
  - cbn [app map] in Hnd. apply NoDup_cons_iff in Hnd. destruct Hnd as [Ha Hnd].
    destruct (N.eqb_spec (lf_id a) (lf_id lf)) as [E|E].
    { exfalso. apply Ha. rewrite E. apply in_map. apply in_or_app. right. left. reflexivity. }
    rewrite (IH lf B (Some a) Hnd). cbn [rev]. destruct (rev A); reflexivity.
Qed.

(** generic list facts *)
Lemma StronglySorted_snoc {A} (R : A -> A -> Prop) l a :
  StronglySorted R l -> Forall (fun x => R x a) l -> StronglySorted R (l ++ [a]).
Proof.
  induction 1 as [|b m Hm IH Hf]; intros Ha; cbn [app].
  - constructor; constructor.
  - apply Forall_cons_iff in Ha. destruct Ha as [Hb Ha]. constructor; [apply IH; exact Ha|].
    apply Forall_app. split; [exact Hf|]. constructor; [exact Hb|constructor].
Qed.

Lemma StronglySorted_rev {A} (R : A -> A -> Prop) l :
  StronglySorted R l -> StronglySorted (fun a b => R b a) (rev l).
Proof.
  induction 1 as [|a l Hs IH Hf]; [constructor|]. cbn [rev].
  apply StronglySorted_snoc; [exact IH|]. apply Forall_rev. exact Hf.
Qed.

Lemma StronglySorted_app_inv {A} (R : A -> A -> Prop) l1 l2 :
  StronglySorted R (l1 ++ l2) ->
  StronglySorted R l1 /\ StronglySorted R l2 /\ (forall x y, In x l1 -> In y l2 -> R x y).
Proof.
  induction l1 as [|a l1 IH]; cbn [app]; intros H.
  - split; [constructor|]. split; [exact H|]. intros x y [].
  - apply StronglySorted_inv in H. destruct H as [H Hf]. destruct (IH H) as (H1 & H2 & H3).
    rewrite Forall_forall in Hf. split; [|split; [exact H2|]].
    + constructor; [exact H1|]. apply Forall_forall. intros x Hx. apply Hf. apply in_or_app. left. exact Hx.
    + intros x y [<-|Hx] Hy; [apply Hf; apply in_or_app; right; exact Hy|apply H3; assumption].
Qed.

Lemma filter_all {A} (P : A -> bool) l : (forall x, In x l -> P x = true) -> filter P l = l.
Proof.
  induction l as [|a l IH]; intros H; [reflexivity|]. cbn [filter].
  rewrite (H a (or_introl eq_refl)). f_equal. apply IH. intros x Hx. apply H. right. exact Hx.
Qed.

Lemma filter_none {A} (P : A -> bool) l : (forall x, In x l -> P x = false) -> filter P l = [].
Proof. intros H. apply filter_nil_iff. exact H. Qed.

Lemma list_sum_map_rev {A} (g : A -> nat) l : list_sum (map g (rev l)) = list_sum (map g l).
Proof.
  induction l as [|a l IH]; [reflexivity|]. cbn [rev map]. rewrite map_app, list_sum_app, IH.
  cbn [map list_sum]. unfold list_sum. cbn [fold_right]. lia.
Qed.

Lemma sum_S_length {A B} (g : A -> list B) L :
  list_sum (map (fun l => S (length (g l))) L) = (length (flat_map g L) + length L)%nat.
Proof.
  induction L as [|a L IH]; [reflexivity|]. cbn [map flat_map length]. rewrite app_length.
  unfold list_sum in *. cbn [fold_right]. rewrite IH. lia.
Qed.

(** ** 4. direction-generic order facts *)
Section Dir.
  Variable rtl : bool.

  Definition dl {A} (l : list A) : list A := if rtl then rev l else l.
  Definition dlt (a b : ktuple) : bool := if rtl then canon_lt b a else canon_lt a b.
  Definition hitb (last kt : ktuple) : bool := if rtl then kt_gt last kt else kt_lt last kt.
  Definition last_ok (last : ktuple) : Prop := kt_wf last = true \/ (rtl = true /\ last = kt_sup).
  Definition ents_dir (lf : leaf) : list (N * slot_t) := dl (leaf_ranked lf).

  Lemma dl_in {A} (l : list A) x : In x (dl l) <-> In x l.
  Proof. unfold dl. destruct rtl; [symmetry; apply in_rev|reflexivity]. Qed.
  Lemma dl_length {A} (l : list A) : length (dl l) = length l.
  Proof. unfold dl. destruct rtl; [apply rev_length|reflexivity]. Qed.
  Lemma dl_map {A B} (f : A -> B) l : map f (dl l) = dl (map f l).
  Proof. unfold dl. destruct rtl; [apply map_rev|reflexivity]. Qed.
  Lemma dl_nil {A} : dl (@nil A) = []. Proof. unfold dl. destruct rtl; reflexivity. Qed.
  Lemma dl_flat_map {A B} (g : A -> list B) l : flat_map (fun x => dl (g x)) (dl l) = dl (flat_map g l).
  Proof. unfold dl. destruct rtl; [apply flat_map_rev|reflexivity]. Qed.
  Lemma dl_eq_nil {A} (l : list A) : dl l = [] <-> l = [].
  Proof.
    unfold dl. destruct rtl; [|reflexivity]. split; intros H; [|subst; reflexivity].
    apply (f_equal (@rev A)) in H. rewrite rev_involutive in H. exact H.
  Qed.
  Lemma dl_NoDup {A} (l : list A) : NoDup l -> NoDup (dl l).
  Proof. unfold dl. destruct rtl; [apply NoDup_rev|exact (fun H => H)]. Qed.
  Lemma dl_Forall {A} (P : A -> Prop) l : Forall P l -> Forall P (dl l).
  Proof. unfold dl. destruct rtl; [apply Forall_rev|exact (fun H => H)]. Qed.

  Lemma dl_list_sum {A} (g : A -> nat) l : list_sum (map g (dl l)) = list_sum (map g l).
  Proof. unfold dl. destruct rtl; [apply list_sum_map_rev|reflexivity]. Qed.

  Lemma dlt_irrefl a : dlt a a = false.
  Proof. unfold dlt. destruct rtl; apply canon_lt_irrefl. Qed.
  Lemma dlt_trans a b c : dlt a b = true -> dlt b c = true -> dlt a c = true.
  Proof. unfold dlt. destruct rtl; intros H1 H2; eapply canon_lt_trans; eassumption. Qed.
  Lemma dlt_asym a b : dlt a b = true -> dlt b a = false.
  Proof. unfold dlt. destruct rtl; apply canon_lt_asym. Qed.
  Lemma dlt_trich a b : dlt a b = false -> dlt b a = false -> a = b.
  Proof. unfold dlt. destruct rtl; intros H1 H2; [symmetry|]; apply canon_lt_trich; assumption. Qed.

  Lemma hitb_dlt a b : kt_wf a = true -> kt_wf b = true -> hitb a b = dlt a b.
  Proof. intros Ha Hb. unfold hitb, dlt. destruct rtl; [apply kt_gt_canon|apply kt_lt_canon]; assumption. Qed.

  Lemma hitb_sup x : rtl = true -> kt_wf x = true -> hitb kt_sup x = true.
  Proof. intros E Hx. unfold hitb. rewrite E. unfold kt_gt. apply kt_lt_sup. exact Hx. Qed.

  Lemma hitb_up last x y :
    last_ok last -> kt_wf x = true -> kt_wf y = true ->
    hitb last x = true -> dlt x y = true -> hitb last y = true.
  Proof.
    intros [Hl|[E ->]] Hx Hy H1 H2.
    - rewrite hitb_dlt in * by assumption. eapply dlt_trans; eassumption.
    - apply hitb_sup; assumption.
  Qed.

  (** *** slot lists in the direction of the cursor *)
  Definition dsorted (l : list slot_t) : Prop :=
    StronglySorted (fun a b => dlt (sl_key a) (sl_key b) = true) l.

  Lemma elems_dsorted lo hi root : WF_bt lo hi root -> dsorted (dl (bt_elems root)).
  Proof.
    intros Hwf. pose proof (WF_bt_sorted lo hi root Hwf) as Hs. unfold bt_keys, sorted_keys in Hs.
    apply StronglySorted_map_inv in Hs. unfold dsorted, dl, dlt. destruct rtl; [|exact Hs].
    apply (StronglySorted_rev _ _ Hs).
  Qed.

  Lemma slots_dir root : map snd (flat_map ents_dir (dl (bt_leaves root))) = dl (bt_elems root).
  Proof.
    rewrite <- bt_leaves_elems. unfold ents_dir. rewrite dl_flat_map, dl_map. f_equal.
    unfold leaf_entries. rewrite map_flat_map. reflexivity.
  Qed.

  Definition pend (root : bt) (last : ktuple) : list slot_t :=
    filter (fun s => hitb last (sl_key s)) (dl (bt_elems root)).

  (** after the first pending entry has been taken, the pending entries are the rest *)
  Lemma pend_step_gen last : forall l s rest,
    last_ok last -> Forall (fun x => kt_wf (sl_key x) = true) l -> dsorted l ->
    filter (fun x => hitb last (sl_key x)) l = s :: rest ->
    filter (fun x => hitb (sl_key s) (sl_key x)) l = rest.
  Proof.
    induction l as [|a l IH]; intros s rest Hlast Hw Hs E; [discriminate|].
    apply Forall_cons_iff in Hw. destruct Hw as [Hwa Hw].
    apply StronglySorted_inv in Hs. destruct Hs as [Hs Hf]. rewrite Forall_forall in Hf, Hw.
    cbn [filter] in E |- *. destruct (hitb last (sl_key a)) eqn:Ha.
    - injection E as <- <-. rewrite hitb_dlt, dlt_irrefl by assumption.
      rewrite !filter_all; [reflexivity| |].
      + intros x Hx. apply (hitb_up last (sl_key a)); auto.
      + intros x Hx. rewrite hitb_dlt by auto. apply Hf. exact Hx.
    - assert (In s l) as Hin.
      { assert (In s (filter (fun x => hitb last (sl_key x)) l)) as X by (rewrite E; left; reflexivity).
        apply filter_In in X. apply X. }
      rewrite hitb_dlt by auto. rewrite (dlt_asym _ _ (Hf s Hin)).
      apply IH; try assumption. apply Forall_forall. exact Hw.
  Qed.

  Lemma elems_wf lo hi root : WF_bt lo hi root -> Forall (fun x => kt_wf (sl_key x) = true) (dl (bt_elems root)).
  Proof.
    intros Hwf. apply dl_Forall. pose proof (WF_bt_entries_ok lo hi root Hwf) as H.
    eapply Forall_impl; [|exact H]. intros s [Hs _]. exact Hs.
  Qed.

  Lemma pend_step lo hi root last s rest :
    WF_bt lo hi root -> last_ok last -> pend root last = s :: rest -> pend root (sl_key s) = rest.
  Proof.
    intros Hwf Hl E. unfold pend in *.
    eapply pend_step_gen; [exact Hl|eapply elems_wf; exact Hwf|eapply elems_dsorted; exact Hwf|exact E].
  Qed.

  Lemma pend_in root last s : In s (pend root last) -> In s (bt_elems root) /\ hitb last (sl_key s) = true.
  Proof. unfold pend. intros H. apply filter_In in H. destruct H as [H1 H2]. split; [exact (proj1 (dl_in _ _) H1)|exact H2]. Qed.
End Dir.

(** ** 5. the descent reaches the border where the key would be *)

(** the leaves to the right of the leaf found only hold greater keys *)
Lemma bt_find_leaf_after fuel : forall t lo hi k,
  WF_bt lo hi t -> kt_wf k = true -> (bt_height t < fuel)%nat ->
  exists lf before after,
    bt_find_leaf fuel t k = Some lf /\ bt_leaves t = before ++ lf :: after /\
    (forall s, In s (flat_map leaf_entries after) -> canon_lt k (sl_key s) = true).
Proof.
  induction fuel as [|fu IH]; intros t lo hi k Hwf Hk Hh; [lia|].
  destruct t as [lf|id ver keys ch].
  - exists lf, [], []. split; [reflexivity|]. split; [reflexivity|intros s []].
  - apply WF_int_iff in Hwf. destruct Hwf as [Hn Hkids].
    destruct (kids_route lo hi keys ch k Hkids Hk) as (Hi & _ & _).
    destruct Hkids as (Hlen & Hs & Hw & Hsb & Hc & Hne).
    pose proof (route_is_pos keys k Hw Hk) as Hpos.
    set (i := route keys k 0) in *.
    cbn [bt_find_leaf]. fold i. rewrite (nth_error_child ch i Hi).
    destruct (IH (nth i ch dbt) _ _ k (Hc i Hi) Hk) as (lf & b' & a' & E & EL & Ha').
    { pose proof (height_child id ver keys ch i Hi). lia. }
    exists lf, (flat_map bt_leaves (firstn i ch) ++ b'), (a' ++ flat_map bt_leaves (skipn (S i) ch)).
    split; [exact E|]. split.
    + cbn [bt_leaves]. rewrite (flat_map_split bt_leaves dbt ch i Hi), EL, <- !app_assoc. reflexivity.
    + intros s Hin. rewrite flat_map_app in Hin. apply in_app_or in Hin.
      destruct Hin as [Hin|Hin]; [apply Ha'; exact Hin|].
      apply in_flat_map in Hin. destruct Hin as (lf0 & Hlf0 & Hs0).
      apply in_flat_map in Hlf0. destruct Hlf0 as (c & Hc0 & Hlf0).
      apply (In_nth _ _ dbt) in Hc0. destruct Hc0 as (j & Hj & Ej).
      rewrite skipn_length in Hj. rewrite nth_skipn in Ej. subst c.
      set (j' := (S i + j)%nat) in *.
      assert (In s (bt_elems (nth j' ch dbt))) as Hel.
      { rewrite <- bt_leaves_elems. apply in_flat_map. exists lf0. split; assumption. }
      pose proof (WF_bt_keys_bnd _ _ _ (Hc j' ltac:(lia))) as B. rewrite Forall_forall in B.
      destruct (B (sl_key s) (in_elems_in_keys _ _ Hel)) as [B1 _].
      destruct Hpos as (P1 & P2 & P3). unfold j', lo_at in B1. cbn [Nat.add lo_ok] in B1.
      eapply canon_lt_le_trans; [apply P3; lia|].
      eapply canon_le_trans; [|exact B1]. apply sorted_nth_le; [exact Hs|lia|lia].
Qed.

Lemma route_sup keys : Forall (fun s => kt_wf s = true) keys -> forall i, route keys kt_sup i = (i + length keys)%nat.
Proof.
  intros Hw i. apply route_none. intros s Hs. apply route_probe_sup. rewrite Forall_forall in Hw. apply Hw. exact Hs.
Qed.

Lemma bt_find_leaf_sup fuel : forall t lo hi,
  WF_bt lo hi t -> (bt_height t < fuel)%nat ->
  exists lf before, bt_find_leaf fuel t kt_sup = Some lf /\ bt_leaves t = before ++ [lf].
Proof.
  induction fuel as [|fu IH]; intros t lo hi Hwf Hh; [lia|].
  destruct t as [lf|id ver keys ch].
  - exists lf, []. split; reflexivity.
  - apply WF_int_iff in Hwf. destruct Hwf as (_ & Hlen & _ & Hw & _ & Hc & _).
    assert (route keys kt_sup 0 = length keys) as Er by (rewrite route_sup by exact Hw; lia).
    set (i := length keys) in *. assert (i < length ch)%nat as Hi by lia.
    cbn [bt_find_leaf]. rewrite Er, (nth_error_child ch i Hi).
    destruct (IH (nth i ch dbt) _ _ (Hc i Hi)) as (lf & b' & E & EL).
    { pose proof (height_child id ver keys ch i Hi). lia. }
    exists lf, (flat_map bt_leaves (firstn i ch) ++ b'). split; [exact E|].
    cbn [bt_leaves]. rewrite (flat_map_split bt_leaves dbt ch i Hi), EL.
    rewrite (skipn_all2 ch) by lia. cbn [flat_map]. rewrite app_nil_r, app_assoc. reflexivity.
Qed.

Lemma leaves_NoDup root : WF_layer root -> NoDup (map lf_id (bt_leaves root)).
Proof. intros [_ Hnd]. apply leaves_ids_NoDup. exact Hnd. Qed.

Section Descent.
  Variable rtl : bool.
  Local Notation dl := (dl rtl).
  Local Notation hitb := (hitb rtl).
  Local Notation ents_dir := (ents_dir rtl).

  (** the decomposition of the chain, in the direction of the cursor, around the border found *)
  Lemma find_leaf_dir root k :
    WF_bt None None root -> kt_wf k = true ->
    exists lf A B,
      find_leaf root k = Some lf /\ dl (bt_leaves root) = A ++ lf :: B /\
      (forall x, In x (flat_map ents_dir A) -> hitb k (sl_key (snd x)) = false).
  Proof.
    intros Hwf Hk. unfold find_leaf.
    assert (forall (A : list leaf) x, In x (flat_map ents_dir A) -> In (snd x) (flat_map leaf_entries A)) as Hconv.
    { intros A x Hx. apply in_flat_map in Hx. destruct Hx as (lf & Hlf & Hx).
      apply in_flat_map. exists lf. split; [exact Hlf|]. unfold IScanProofs.ents_dir in Hx.
      apply dl_in in Hx. unfold leaf_entries. apply in_map. exact Hx. }
    assert (forall lf s, In lf (bt_leaves root) -> In s (leaf_entries lf) -> kt_wf (sl_key s) = true) as Hwfs.
    { intros lf s Hlf Hs. pose proof (bt_leaves_WF _ _ _ Hwf lf Hlf) as (_ & _ & Hok & _).
      rewrite Forall_forall in Hok. apply (Hok s Hs). }
    destruct rtl eqn:Ertl.
    - destruct (bt_find_leaf_after (S (bt_height root)) root None None k Hwf Hk ltac:(lia))
        as (lf & before & after & Ef & Elv & Hafter).
      exists lf, (rev after), (rev before). split; [exact Ef|]. split.
      + unfold IScanProofs.dl. rewrite Elv, rev_app_distr. cbn [rev]. rewrite <- app_assoc. reflexivity.
      + intros x Hx. apply Hconv in Hx.
        assert (In (snd x) (flat_map leaf_entries after)) as Hx'.
        { apply in_flat_map in Hx. destruct Hx as (l0 & Hl0 & Hx). apply in_flat_map. exists l0.
          split; [apply in_rev; exact Hl0|exact Hx]. }
        pose proof (Hafter _ Hx') as Hlt.
        assert (kt_wf (sl_key (snd x)) = true) as Hw.
        { apply in_flat_map in Hx'. destruct Hx' as (l0 & Hl0 & Hx'). apply (Hwfs l0); [|exact Hx'].
          rewrite Elv. apply in_or_app. right. right. exact Hl0. }
        unfold IScanProofs.hitb. rewrite (kt_gt_canon _ _ Hk Hw). apply canon_lt_asym. exact Hlt.
    - destruct (bt_find_leaf_before (S (bt_height root)) root None None k Hwf Hk ltac:(lia))
        as (lf & before & after & Ef & Elv & Hbefore).
      exists lf, before, after. split; [exact Ef|]. split; [exact Elv|].
      intros x Hx. apply Hconv in Hx. pose proof (Hbefore _ Hx) as Hlt.
      assert (kt_wf (sl_key (snd x)) = true) as Hw.
      { apply in_flat_map in Hx. destruct Hx as (l0 & Hl0 & Hx). apply (Hwfs l0); [|exact Hx].
        rewrite Elv. apply in_or_app. left. exact Hl0. }
      unfold IScanProofs.hitb. rewrite (kt_lt_canon _ _ Hk Hw). apply canon_lt_asym. exact Hlt.
  Qed.

  (** the descent into a layer found by a link: its first border in the direction of the cursor *)
  Definition child_kt : ktuple := if rtl then kt_sup else kt_min.

  Lemma find_leaf_child root :
    WF_bt None None root ->
    exists lf A B,
      find_leaf root child_kt = Some lf /\ dl (bt_leaves root) = A ++ lf :: B /\ flat_map ents_dir A = [].
  Proof.
    intros Hwf. unfold child_kt, find_leaf. destruct rtl eqn:Ertl.
    - destruct (bt_find_leaf_sup (S (bt_height root)) root None None Hwf ltac:(lia)) as (lf & before & Ef & Elv).
      exists lf, [], (rev before). split; [exact Ef|]. split; [|reflexivity].
      unfold IScanProofs.dl. rewrite Elv, rev_app_distr. reflexivity.
    - destruct (bt_find_leaf_before (S (bt_height root)) root None None kt_min Hwf kt_min_wf ltac:(lia))
        as (lf & before & after & Ef & Elv & Hbefore).
      exists lf, before, after. split; [exact Ef|]. split; [exact Elv|].
      destruct (flat_map (IScanProofs.ents_dir false) before) as [|x xs] eqn:E; [reflexivity|]. exfalso.
      assert (In (snd x) (flat_map leaf_entries before)) as Hx.
      { assert (In x (flat_map (IScanProofs.ents_dir false) before)) as Hx by (rewrite E; left; reflexivity).
        apply in_flat_map in Hx. destruct Hx as (l0 & Hl0 & Hx). apply in_flat_map. exists l0.
        split; [exact Hl0|]. unfold IScanProofs.ents_dir, IScanProofs.dl in Hx. unfold leaf_entries. apply in_map. exact Hx. }
      specialize (Hbefore _ Hx). rewrite canon_min in Hbefore. discriminate.
  Qed.
End Descent.

(** ** 6. keys below links *)
Lemma in_right_app pb r re k : in_right (pb ++ r) re (pb ++ k) = in_right r re k.
Proof. destruct re; cbn [in_right]; rewrite ?lex_lt_app; reflexivity. Qed.

(** a key whose first tuple is above (below) a link tuple is above (below) every key under that link *)
Lemma link_cmp t x y :
  kt_wf t = true -> kl t = 9 -> bytes x -> bytes y -> y <> [] ->
  (canon_lt t (tuple_of_key x) = true -> lex_lt (bytes_of_slice (ks t) 8 ++ y) x = true) /\
  (canon_lt (tuple_of_key x) t = true -> lex_lt x (bytes_of_slice (ks t) 8 ++ y) = true).
Proof.
  intros Hw H9 Hx Hy Hne.
  assert (bytes (bytes_of_slice (ks t) 8 ++ y)) as Hb by (apply Forall_app; split; [apply bos_bytes|exact Hy]).
  split; intros H.
  - rewrite (lex_tuple _ _ Hb Hx), (tuple_of_link t y Hw H9 Hne), H. reflexivity.
  - rewrite (lex_tuple _ _ Hx Hb), (tuple_of_link t y Hw H9 Hne), H. reflexivity.
Qed.

Lemma stack_prefix_snoc st e : stack_prefix (st ++ [e]) = stack_prefix st ++ [ks (ie_key e)].
Proof. unfold stack_prefix. rewrite map_app. reflexivity. Qed.
Lemma full_key_snoc st e : full_key (st ++ [e]) = full_key st ++ bytes_of_slice (ks (ie_key e)) (kl (ie_key e)).
Proof. unfold full_key. rewrite flat_map_app. cbn [flat_map]. rewrite app_nil_r. reflexivity. Qed.
Lemma stack_prefix_length st : length (stack_prefix st) = length st.
Proof. apply map_length. Qed.

Lemma layers_entries_ge ls : forall p root, In (p, root) ls ->
  (length (flat_map leaf_ranked (bt_leaves root)) + length (bt_leaves root) + 2 * length ls <= layers_entries ls)%nat.
Proof.
  assert (forall l : layers_t, 2 * length l <= layers_entries l)%nat as G.
  { induction l as [|[q t] l IH]; cbn [layers_entries length]; lia. }
  induction ls as [|[q t] ls IH]; intros p root Hin; [destruct Hin|].
  cbn [layers_entries length]. destruct Hin as [E|Hin].
  - injection E as -> ->. specialize (G ls). lia.
  - specialize (IH p root Hin). lia.
Qed.

Lemma StronglySorted_filter {A} (R : A -> A -> Prop) (P : A -> bool) l :
  StronglySorted R l -> StronglySorted R (filter P l).
Proof.
  induction 1 as [|a l Hs IH Hf]; [constructor|]. cbn [filter]. destruct (P a); [|exact IH].
  constructor; [exact IH|]. rewrite Forall_forall in *. intros x Hx. apply Hf. apply filter_In in Hx. apply Hx.
Qed.

(** ** 6b. counting: a store holds at most [layers_entries] values *)
Definition all_addrs (l : layers_t) : list (prefix * ktuple) :=
  flat_map (fun qt => map (fun s => (fst qt, sl_key s)) (bt_elems (snd qt))) l.

Lemma flat_map_length_eq {A B C} (g : A -> list B) (h : A -> list C) l :
  (forall x, In x l -> length (g x) = length (h x)) -> length (flat_map g l) = length (flat_map h l).
Proof.
  induction l as [|a l IH]; intros H; [reflexivity|]. cbn [flat_map]. rewrite !app_length.
  rewrite (H a (or_introl eq_refl)), IH; [reflexivity|]. intros x Hx. apply H. right. exact Hx.
Qed.

Lemma all_addrs_length l : (length (all_addrs l) <= layers_entries l)%nat.
Proof.
  unfold all_addrs. induction l as [|[q t] l IH]; [cbn; lia|].
  cbn [flat_map layers_entries fst snd]. rewrite app_length, map_length.
  rewrite <- (bt_leaves_elems t).
  assert (forall L, length (flat_map leaf_entries L) = length (flat_map leaf_ranked L)) as E.
  { intros L. apply flat_map_length_eq. intros x _. unfold leaf_entries. apply map_length. }
  rewrite E. lia.
Qed.

Section Count.
  Variable ctr : N.
  Variable ls : layers_t.
  Hypothesis W : WFL ctr ls None.

  (** the (layer, tuple) address of every value reachable from the layer at [p] *)
  Fixpoint addrs (f : nat) (p : prefix) : list (prefix * ktuple) :=
    match f with
    | O => []
    | S f' =>
      match layer_get ls p with
      | None => []
      | Some root =>
        flat_map (fun s => match sl_lv s with
                           | LValue _ => [(p, sl_key s)]
                           | LLink => addrs f' (p ++ [ks (sl_key s)])
                           | LEmpty => []
                           end) (bt_elems root)
      end
    end.

  Lemma addrs_length : forall f p pb, length (clayer f ls p pb) = length (addrs f p).
  Proof.
    induction f as [|f IH]; intros p pb; [reflexivity|]. cbn [clayer addrs].
    destruct (layer_get ls p) as [root|]; [|reflexivity].
    apply flat_map_length_eq. intros s _. destruct (sl_lv s); [reflexivity|reflexivity|apply IH].
  Qed.

  Lemma addrs_in : forall f p q k, In (q, k) (addrs f p) ->
    (exists r, q = p ++ r) /\ exists root s, layer_get ls q = Some root /\ In s (bt_elems root) /\ sl_key s = k.
  Proof.
    induction f as [|f IH]; intros p q k H; [destruct H|]. cbn [addrs] in H.
    destruct (layer_get ls p) as [root|] eqn:Eg; [|destruct H].
    apply in_flat_map in H. destruct H as (s & Hs & H). destruct (sl_lv s) eqn:Elv; [destruct H| |].
    - destruct H as [H|[]]. injection H as <- <-. split; [exists []; rewrite app_nil_r; reflexivity|].
      exists root, s. repeat split; assumption.
    - apply IH in H. destruct H as [[r ->] H]. split; [|exact H]. exists (ks (sl_key s) :: r).
      rewrite <- app_assoc. reflexivity.
  Qed.

  Lemma addrs_NoDup : forall f p, NoDup (addrs f p).
  Proof.
    induction f as [|f IH]; intros p; [constructor|]. cbn [addrs].
    destruct (layer_get ls p) as [root|] eqn:Eg; [|constructor].
    destruct (wl_layer _ _ _ W p root Eg) as [Hwf _].
    pose proof (WF_bt_keys_NoDup _ _ _ Hwf) as Hnd. unfold bt_keys in Hnd.
    pose proof (WF_bt_entries_ok _ _ _ Hwf) as Hok.
    induction (bt_elems root) as [|a l IHl]; [constructor|].
    cbn [map] in Hnd. apply NoDup_cons_iff in Hnd. destruct Hnd as [Ha Hnd].
    apply Forall_cons_iff in Hok. destruct Hok as [Hoka Hok].
    cbn [flat_map]. apply NoDup_app_intro.
    - destruct (sl_lv a); [constructor|constructor; [intros []|constructor]|apply IH].
    - apply IHl; assumption.
    - intros [q k] H1 H2. apply in_flat_map in H2. destruct H2 as (b & Hb & H2).
      assert (sl_key a <> sl_key b) as Hne by (intros E; apply Ha; rewrite E; apply in_map; exact Hb).
      rewrite Forall_forall in Hok. pose proof (Hok b Hb) as Hokb.
      destruct (sl_lv a) eqn:Ea; [destruct H1| |].
      + destruct H1 as [H1|[]]. injection H1 as <- <-. destruct (sl_lv b) eqn:Eb; [destruct H2| |].
        * destruct H2 as [H2|[]]. injection H2 as E. congruence.
        * apply addrs_in in H2. destruct H2 as [[r E] _]. apply (f_equal (@length N)) in E.
          rewrite !app_length in E. cbn [length] in E. lia.
      + apply addrs_in in H1. destruct H1 as [[r ->] _]. destruct (sl_lv b) eqn:Eb; [destruct H2| |].
        * destruct H2 as [H2|[]]. injection H2 as E _. apply (f_equal (@length N)) in E.
          rewrite !app_length in E. cbn [length] in E. lia.
        * apply addrs_in in H2. destruct H2 as [[r' E] _]. rewrite <- !app_assoc in E.
          apply app_inv_head in E. cbn [app] in E. injection E as E _.
          destruct Hoka as [_ Hka], Hokb as [_ Hkb]. rewrite Ea in Hka. rewrite Eb in Hkb.
          apply Hne. apply ktuple_eq. split; [exact E|congruence].
  Qed.

  Lemma clayer_count f p pb : (length (clayer f ls p pb) <= layers_entries ls)%nat.
  Proof.
    rewrite addrs_length. eapply Nat.le_trans; [|apply (all_addrs_length ls)].
    apply NoDup_incl_length; [apply addrs_NoDup|].
    intros [q k] H. apply addrs_in in H. destruct H as (_ & root & s & Eg & Hs & <-).
    unfold all_addrs. apply in_flat_map. exists (q, root). split; [apply layer_get_in; exact Eg|].
    cbn [fst snd]. apply (in_map (fun s0 => (q, sl_key s0))). exact Hs.
  Qed.
End Count.

(** ** 7. the cursor over a fixed store, direction and end point *)
Section Cursor.
  Variable ctr : N.
  Variable ls : layers_t.
  Hypothesis W : WFL ctr ls None.
  Variable rtl : bool.
  Variable K : key.          (* the end key *)
  Variable ep : endpoint.    (* the end point kind *)
  Hypothesis HK : bytes K.
  Hypothesis Hep : rtl = true -> ep <> EP_INF.

  Local Notation dl := (dl rtl).
  Local Notation dlt := (dlt rtl).
  Local Notation hitb := (hitb rtl).
  Local Notation last_ok := (last_ok rtl).
  Local Notation ents_dir := (ents_dir rtl).
  Local Notation pend := (pend rtl).
  Local Notation child_kt := (child_kt rtl).

  Definition mkc (st : list ielem) : ictx :=
    {| ic_end_key := K; ic_end_ep := ep; ic_rtl := rtl; ic_stack := st |}.
  (** membership on the side of the end point *)
  Definition inr (k : key) : bool := if rtl then in_left K ep k else in_right K ep k.
  Definition endt (n : nat) : ktuple := end_tuple (mkc []) n.
  Definition lvl (n : nat) : nat := (length ls - n)%nat.

  Definition dcent (n : nat) (p : prefix) (pb : key) (s : slot_t) : list (key * value) :=
    dl (cent (lvl n) ls p pb s).
  Definition dlayer (n : nat) (p : prefix) (pb : key) : list (key * value) :=
    dl (clayer (S (lvl n)) ls p pb).

  Lemma dlayer_eq n p pb root :
    layer_get ls p = Some root -> dlayer n p pb = flat_map (dcent n p pb) (dl (bt_elems root)).
  Proof.
    intros Eg. unfold dlayer, dcent. rewrite clayer_S, Eg. symmetry. apply (dl_flat_map rtl).
  Qed.

  Lemma dcent_link n p pb s :
    sl_lv s = LLink -> (n < length ls)%nat ->
    dcent n p pb s = dlayer (S n) (p ++ [ks (sl_key s)]) (pb ++ bytes_of_slice (ks (sl_key s)) 8).
  Proof.
    intros E Hn. unfold dcent, dlayer, cent. rewrite E.
    replace (S (lvl (S n))) with (lvl n) by (unfold lvl; lia). reflexivity.
  Qed.

  Lemma dcent_value n p pb s v :
    sl_lv s = LValue v -> dcent n p pb s = [(pb ++ tbytes (sl_key s), v)].
  Proof. intros E. unfold dcent, cent. rewrite E. unfold IScanProofs.dl. destruct rtl; reflexivity. Qed.

  (** the entries of the layer at [below] that are still to come, with everything under them *)
  Definition after (below : list ielem) (e : ielem) : list (key * value) :=
    match layer_get ls (stack_prefix below) with
    | None => []
    | Some root =>
      flat_map (dcent (length below) (stack_prefix below) (full_key below)) (pend root (ie_key e))
    end.

  Definition allff (p : prefix) : Prop := Forall (fun x => x = 18446744073709551615) p.

  (** what [compare_to_end == 0] means for the layer with byte prefix [pb] at depth [n] *)
  Definition RI (n : nat) (p : prefix) (pb : key) (cmp0 : bool) : Prop :=
    if cmp0 then
      (rtl = false /\ ep = EP_INF /\ allff p) \/
      (ep <> EP_INF /\ exists rest, K = pb ++ rest /\ (n = 0%nat \/ rest <> []))
    else n <> 0%nat /\ forall x, bytes x -> x <> [] -> inr (pb ++ x) = true.

  Definition is_link (e : ielem) : Prop := kl (ie_key e) = 9 /\ kt_wf (ie_key e) = true.

  Definition EOK (below : list ielem) (e : ielem) : Prop :=
    exists root A lf B,
      layer_get ls (stack_prefix below) = Some root /\
      dl (bt_leaves root) = A ++ lf :: B /\ ie_leaf e = lf_id lf /\
      (forall x, In x (flat_map ents_dir A ++ firstn (ie_rank e) (ents_dir lf)) ->
                 hitb (ie_key e) (sl_key (snd x)) = false) /\
      last_ok (ie_key e) /\
      RI (length below) (stack_prefix below) (full_key below) (ie_cmp0 e).

  Fixpoint sinvr (rs : list ielem) : Prop :=
    match rs with
    | [] => True
    | e :: brs => EOK (rev brs) e /\ Forall is_link brs /\ sinvr brs
    end.
  Definition sinv (st : list ielem) : Prop := sinvr (rev st).

  Fixpoint remsr (rs : list ielem) : list (key * value) :=
    match rs with
    | [] => []
    | e :: brs => after (rev brs) e ++ remsr brs
    end.
  Definition rems (st : list ielem) : list (key * value) := remsr (rev st).

  Lemma sinv_snoc below e : sinv (below ++ [e]) <-> EOK below e /\ Forall is_link below /\ sinv below.
  Proof.
    unfold sinv. rewrite rev_app_distr. cbn [rev app sinvr]. rewrite rev_involutive.
    split; intros (H1 & H2 & H3); (split; [exact H1|split; [|exact H3]]).
    - rewrite <- (rev_involutive below). apply Forall_rev. exact H2.
    - apply Forall_rev. exact H2.
  Qed.

  Lemma rems_snoc below e : rems (below ++ [e]) = after below e ++ rems below.
  Proof. unfold rems. rewrite rev_app_distr. cbn [rev app remsr]. rewrite rev_involutive. reflexivity. Qed.

  Lemma full_key_length st : Forall is_link st -> length (full_key st) = (8 * length st)%nat.
  Proof.
    induction st as [|e st IH] using rev_ind; intros H; [reflexivity|].
    apply Forall_app in H. destruct H as [H1 H2]. apply Forall_cons_iff in H2. destruct H2 as [[H9 _] _].
    rewrite full_key_snoc, !app_length, IH, bos_length, H9 by exact H1. cbn [length]. lia.
  Qed.

  Lemma full_key_bytes st : bytes (full_key st).
  Proof.
    induction st as [|e st IH]; [constructor|]. unfold full_key in *. cbn [flat_map].
    apply Forall_app. split; [apply bos_bytes|exact IH].
  Qed.

  Lemma depth_lt below root : layer_get ls (stack_prefix below) = Some root -> (length below < length ls)%nat.
  Proof.
    intros E. rewrite <- (stack_prefix_length below). apply (layer_depth ctr ls None _ W). rewrite E. discriminate.
  Qed.

  (** *** the decision of [iscan_findnext] on one entry *)
  Definition hitf (kt ekt : ktuple) : bool :=
    let incl := ep_eqb ep EP_INCL in
    if negb rtl
    then (if incl then negb (kt_gt kt ekt) else kt_lt kt ekt || (kt_eq kt ekt && (8 <? kl kt)))
    else (if incl then negb (kt_lt kt ekt) else kt_gt kt ekt || (kt_eq kt ekt && (8 <? kl kt))).

  Lemma idecide_eq st cmp0 last kt ekt :
    idecide (mkc st) cmp0 last kt ekt =
    if negb (hitb last kt) then D_SKIP
    else if negb cmp0 then D_HIT else if hitf kt ekt then D_HIT else D_RANGE_END.
  Proof. reflexivity. Qed.

  Lemma endt_inf n : rtl = false -> ep = EP_INF -> endt n = kt_max.
  Proof.
    intros Er Ee. unfold endt, end_tuple. cbn [mkc ic_rtl ic_end_ep ic_end_key]. rewrite Er, Ee. reflexivity.
  Qed.

  Lemma endt_rest n pb rest :
    ep <> EP_INF -> K = pb ++ rest -> length pb = (8 * n)%nat -> endt n = tuple_of_key rest.
  Proof.
    intros Hne E Hl. unfold endt, end_tuple. cbn [mkc ic_rtl ic_end_ep ic_end_key].
    assert (ep_eqb ep EP_INF = false) as -> by (destruct ep; try reflexivity; contradiction).
    rewrite andb_false_r. rewrite E, skipn_app, skipn_all2, Hl, Nat.sub_diag by lia. reflexivity.
  Qed.

  Lemma bytes_app_inv (a b : key) : bytes (a ++ b) -> bytes a /\ bytes b.
  Proof. intros H. apply Forall_app in H. exact H. Qed.

  Lemma kt_eq_sym a b : kt_eq a b = kt_eq b a.
  Proof. unfold kt_eq. rewrite (N.eqb_sym (ks a)), (N.eqb_sym (kl a)). reflexivity. Qed.

  Lemma hitf_canon kt ekt :
    kt_wf kt = true -> kt_wf ekt = true ->
    hitf kt ekt =
    if rtl then (if ep_eqb ep EP_INCL then negb (canon_lt kt ekt) else canon_lt ekt kt || (kt_eq kt ekt && (8 <? kl kt)))
    else (if ep_eqb ep EP_INCL then negb (canon_lt ekt kt) else canon_lt kt ekt || (kt_eq kt ekt && (8 <? kl kt))).
  Proof.
    intros H1 H2. unfold hitf. cbv zeta. unfold kt_gt. rewrite !kt_lt_canon by assumption.
    destruct rtl; reflexivity.
  Qed.

  Lemma canon_cases a b : canon_lt a b = true \/ a = b \/ canon_lt b a = true.
  Proof.
    destruct (canon_lt a b) eqn:E1; [left; reflexivity|]. right.
    destruct (canon_lt b a) eqn:E2; [right; reflexivity|]. left. apply canon_lt_trich; assumption.
  Qed.

  (** a value entry: the decision is membership *)
  Lemma dec_value n p pb kt :
    RI n p pb true -> length pb = (8 * n)%nat -> kt_wf kt = true -> kl kt <= 8 ->
    hitf kt (endt n) = inr (pb ++ tbytes kt).
  Proof.
    intros HR Hl Hw H8. cbn [RI] in HR. destruct HR as [(Er & Ee & _)|(Hne & rest & EK & _)].
    - rewrite (endt_inf n Er Ee). rewrite (hitf_canon kt kt_max Hw kt_max_wf). unfold inr. rewrite Er, Ee.
      cbn [ep_eqb in_right]. destruct (canon_cases kt kt_max) as [H|[H|H]].
      + rewrite H. reflexivity.
      + subst kt. cbn in H8. lia.
      + rewrite (canon_max kt Hw) in H. discriminate.
    - pose proof HK as HK'. rewrite EK in HK'. apply bytes_app_inv in HK'. destruct HK' as [_ Hrest].
      rewrite (endt_rest n pb rest Hne EK Hl).
      pose proof (tuple_of_key_wf rest Hrest) as Hwe.
      rewrite (hitf_canon kt _ Hw Hwe).
      assert (length (tbytes kt) <= 8)%nat as Hlen by (pose proof (tbytes_length kt H8); lia).
      pose proof (lex_tuple_short (tbytes kt) rest (bos_bytes _ _) Hrest (or_introl Hlen)) as E1.
      pose proof (lex_tuple_short rest (tbytes kt) Hrest (bos_bytes _ _) (or_intror Hlen)) as E2.
      rewrite (tuple_of_tbytes kt Hw H8) in E1, E2.
      assert (8 <? kl kt = false) as -> by lia. rewrite andb_false_r, !orb_false_r.
      unfold inr. rewrite EK. destruct rtl.
      + rewrite in_left_app. destruct ep; cbn [ep_eqb in_left]; rewrite ?E1, ?E2; try reflexivity. contradiction.
      + rewrite in_right_app. destruct ep; cbn [ep_eqb in_right]; rewrite ?E1, ?E2; try reflexivity. contradiction.
  Qed.

  Lemma if_same {A} (b : bool) (x : A) : (if b then x else x) = x.
  Proof. destruct b; reflexivity. Qed.

  Lemma RI_false_ext n p pb s :
    RI n p pb false -> RI (S n) (p ++ [s]) (pb ++ bytes_of_slice s 8) false.
  Proof.
    intros [_ H]. split; [discriminate|]. intros x Hx Hne. rewrite <- app_assoc. apply H.
    - apply Forall_app. split; [apply bos_bytes|exact Hx].
    - intros E. apply app_eq_nil in E. destruct E as [_ E]. contradiction.
  Qed.

  Lemma inr_app pb rest k : K = pb ++ rest ->
    inr (pb ++ k) = if rtl then in_left rest ep k else in_right rest ep k.
  Proof. intros E. unfold inr. rewrite E. destruct rtl; [apply in_left_app|apply in_right_app]. Qed.

  (** a link entry: either everything below it is beyond the end, or the layer below is entered *)
  Lemma dec_link n p pb kt :
    RI n p pb true -> length pb = (8 * n)%nat -> kt_wf kt = true -> kl kt = 9 ->
    (hitf kt (endt n) = false ->
       forall x, bytes x -> x <> [] -> inr (pb ++ bytes_of_slice (ks kt) 8 ++ x) = false) /\
    (hitf kt (endt n) = true ->
       RI (S n) (p ++ [ks kt]) (pb ++ bytes_of_slice (ks kt) 8) (kt_eq kt (endt n))).
  Proof.
    intros HR Hl Hw H9. cbn [RI] in HR. destruct HR as [(Er & Ee & Hff)|(Hne & rest & EK & Hrne)].
    - rewrite (endt_inf n Er Ee). rewrite (hitf_canon kt kt_max Hw kt_max_wf). rewrite Er, Ee. cbn [ep_eqb].
      rewrite H9. change (8 <? 9) with true. rewrite andb_true_r.
      destruct (canon_cases kt kt_max) as [H|[H|H]].
      + rewrite H. split; [discriminate|]. intros _.
        assert (kt_eq kt kt_max = false) as ->.
        { destruct (kt_eq kt kt_max) eqn:E; [|reflexivity]. apply kt_eq_iff in E. subst kt.
          rewrite canon_lt_irrefl in H. discriminate. }
        split; [discriminate|]. intros x _ _. unfold inr. rewrite Er, Ee. reflexivity.
      + subst kt. cbn [orb]. split; [discriminate|]. intros _. rewrite kt_eq_refl.
        left. split; [exact Er|]. split; [exact Ee|]. apply Forall_app. split; [exact Hff|].
        constructor; [reflexivity|constructor].
      + rewrite (canon_max kt Hw) in H. discriminate.
    - pose proof HK as HK'. rewrite EK in HK'. apply bytes_app_inv in HK'. destruct HK' as [_ Hrest].
      rewrite (endt_rest n pb rest Hne EK Hl).
      pose proof (tuple_of_key_wf rest Hrest) as Hwe. set (ekt := tuple_of_key rest) in *.
      rewrite (hitf_canon kt ekt Hw Hwe). rewrite H9. change (8 <? 9) with true. rewrite andb_true_r.
      assert (forall x, bytes x -> x <> [] ->
                inr (pb ++ bytes_of_slice (ks kt) 8 ++ x) =
                if rtl then in_left rest ep (bytes_of_slice (ks kt) 8 ++ x)
                else in_right rest ep (bytes_of_slice (ks kt) 8 ++ x)) as Einr.
      { intros x _ _. apply inr_app. exact EK. }
      destruct (canon_cases kt ekt) as [H|[H|H]].
      + (* kt < ekt *)
        assert (kt_eq kt ekt = false) as Eq.
        { destruct (kt_eq kt ekt) eqn:E; [|reflexivity]. apply kt_eq_iff in E. rewrite E, canon_lt_irrefl in H. discriminate. }
        assert (forall x, bytes x -> x <> [] -> lex_lt (bytes_of_slice (ks kt) 8 ++ x) rest = true) as Hlt.
        { intros x Hx Hxne. apply (link_cmp kt rest x Hw H9 Hrest Hx Hxne). exact H. }
        rewrite Eq, H, (canon_lt_asym _ _ H). cbn [orb negb]. rewrite !if_same. destruct rtl.
        * split; [|discriminate]. intros _ x Hx Hxne. rewrite (Einr x Hx Hxne). specialize (Hlt x Hx Hxne).
          destruct ep; cbn [in_left]; [apply lex_lt_asym; exact Hlt|rewrite Hlt; reflexivity|contradiction].
        * split; [discriminate|]. intros _. split; [discriminate|]. intros x Hx Hxne.
          rewrite <- app_assoc, (Einr x Hx Hxne). apply in_right_gt. apply Hlt; assumption.
      + (* kt = ekt *)
        rewrite <- H. rewrite kt_eq_refl, canon_lt_irrefl. cbn [orb negb]. rewrite !if_same.
        split; [discriminate|]. intros _. right. split; [exact Hne|].
        destruct (link_key_shape kt rest Hw H9 Hrest (eq_sym H)) as (rest' & E' & Hb' & Hne').
        exists rest'. split; [rewrite EK, E', app_assoc; reflexivity|right; exact Hne'].
      + (* ekt < kt *)
        assert (kt_eq kt ekt = false) as Eq.
        { destruct (kt_eq kt ekt) eqn:E; [|reflexivity]. apply kt_eq_iff in E. rewrite E, canon_lt_irrefl in H. discriminate. }
        assert (forall x, bytes x -> x <> [] -> lex_lt rest (bytes_of_slice (ks kt) 8 ++ x) = true) as Hlt.
        { intros x Hx Hxne. apply (link_cmp kt rest x Hw H9 Hrest Hx Hxne). exact H. }
        rewrite Eq, H, (canon_lt_asym _ _ H). cbn [orb negb]. rewrite !if_same. destruct rtl.
        * split; [discriminate|]. intros _. split; [discriminate|]. intros x Hx Hxne.
          rewrite <- app_assoc, (Einr x Hx Hxne). specialize (Hlt x Hx Hxne).
          destruct ep; cbn [in_left]; [exact Hlt|rewrite (lex_lt_asym _ _ Hlt); reflexivity|reflexivity].
        * split; [|discriminate]. intros _ x Hx Hxne. rewrite (Einr x Hx Hxne).
          apply in_right_lt; [exact Hne|apply Hlt; assumption].
  Qed.

  (** the decision is monotone along the direction of the cursor *)
  Lemma hitf_mono kt kt' ekt :
    kt_wf kt = true -> kt_wf kt' = true -> kt_wf ekt = true ->
    hitf kt ekt = false -> dlt kt kt' = true -> hitf kt' ekt = false.
  Proof.
    intros H1 H2 H3. rewrite !hitf_canon by assumption. unfold IScanProofs.dlt.
    assert (forall a b, canon_lt a b = true -> kt_eq a b = false) as Hneq.
    { intros a b H. destruct (kt_eq a b) eqn:E; [|reflexivity]. apply kt_eq_iff in E.
      rewrite E, canon_lt_irrefl in H. discriminate. }
    destruct rtl; destruct (ep_eqb ep EP_INCL); intros Hf Hlt.
    - apply negb_false_iff in Hf. rewrite (canon_lt_trans _ _ _ Hlt Hf). reflexivity.
    - apply orb_false_iff in Hf. destruct Hf as [Hf1 Hf2].
      assert (canon_lt kt' ekt = true) as X.
      { destruct (canon_cases kt ekt) as [H|[H|H]]; [eapply canon_lt_trans; eassumption|subst; exact Hlt|congruence]. }
      rewrite (canon_lt_asym _ _ X), (Hneq _ _ X). reflexivity.
    - apply negb_false_iff in Hf. rewrite (canon_lt_trans _ _ _ Hf Hlt). reflexivity.
    - apply orb_false_iff in Hf. destruct Hf as [Hf1 Hf2].
      assert (canon_lt ekt kt' = true) as X.
      { destruct (canon_cases kt ekt) as [H|[H|H]]; [congruence|subst; exact Hlt|eapply canon_lt_trans; eassumption]. }
      rewrite (canon_lt_asym _ _ X). rewrite kt_eq_sym, (Hneq _ _ X). reflexivity.
  Qed.

  Lemma endt_wf n : kt_wf (endt n) = true.
  Proof.
    unfold endt, end_tuple. cbn [mkc ic_rtl ic_end_ep ic_end_key].
    destruct (negb rtl && ep_eqb ep EP_INF); [reflexivity|]. apply tuple_of_key_wf. apply bytes_skipn. exact HK.
  Qed.

  (** shape of the keys under an entry *)
  Lemma dcent_shape n p pb root s :
    layer_get ls p = Some root -> In s (bt_elems root) ->
    entry_ok s /\ (sl_lv s = LLink -> layer_get ls (p ++ [ks (sl_key s)]) <> None) /\
    forall kv, In kv (dcent n p pb s) -> exists x, fst kv = pb ++ x /\ bytes x /\ tuple_of_key x = sl_key s.
  Proof.
    intros Eg Hin. pose proof (eok_all ctr ls W p pb (lvl n) root Eg) as Hok. rewrite Forall_forall in Hok.
    destruct (Hok s Hin) as (H1 & H2 & H3). split; [exact H1|]. split; [exact H2|].
    intros kv Hkv. apply H3. unfold dcent in Hkv. apply (proj1 (dl_in rtl _ _)) in Hkv. exact Hkv.
  Qed.

  Lemma slot_dead n p pb root s :
    layer_get ls p = Some root -> In s (bt_elems root) ->
    RI n p pb true -> length pb = (8 * n)%nat -> hitf (sl_key s) (endt n) = false ->
    forall kv, In kv (dcent n p pb s) -> inr (fst kv) = false.
  Proof.
    intros Eg Hin HR Hl Hf kv Hkv.
    destruct (dcent_shape n p pb root s Eg Hin) as ((Hw & Hlv) & _ & Hsh).
    destruct (sl_lv s) as [|v|] eqn:Elv; [contradiction| |].
    - rewrite (dcent_value n p pb s v Elv) in Hkv. destruct Hkv as [<-|[]]. cbn [fst].
      rewrite <- (dec_value n p pb (sl_key s) HR Hl Hw Hlv). exact Hf.
    - destruct (Hsh kv Hkv) as (x & E & Hb & Ht).
      destruct (link_key_shape (sl_key s) x Hw Hlv Hb Ht) as (x' & -> & Hb' & Hne').
      rewrite E. apply (proj1 (dec_link n p pb (sl_key s) HR Hl Hw Hlv) Hf x' Hb' Hne').
  Qed.

  Lemma pend_dead n p pb root last s rest :
    layer_get ls p = Some root -> RI n p pb true -> length pb = (8 * n)%nat ->
    pend root last = s :: rest -> hitf (sl_key s) (endt n) = false ->
    forall kv, In kv (flat_map (dcent n p pb) (s :: rest)) -> inr (fst kv) = false.
  Proof.
    intros Eg HR Hl Ep Hf kv Hkv. destruct (wl_layer _ _ _ W p root Eg) as [Hwf _].
    apply in_flat_map in Hkv. destruct Hkv as (s' & Hs' & Hkv).
    assert (forall y, In y (s :: rest) -> In y (bt_elems root)) as Hin.
    { intros y Hy. rewrite <- Ep in Hy. apply (pend_in rtl) in Hy. apply Hy. }
    assert (forall y, In y (bt_elems root) -> kt_wf (sl_key y) = true) as Hwy.
    { intros y Hy. pose proof (WF_bt_entries_ok _ _ _ Hwf) as X. rewrite Forall_forall in X. apply (X y Hy). }
    apply (slot_dead n p pb root s' Eg (Hin s' Hs') HR Hl); [|exact Hkv].
    destruct Hs' as [<-|Hs']; [exact Hf|].
    apply (hitf_mono (sl_key s) (sl_key s') (endt n)); auto using endt_wf.
    - apply Hwy. apply Hin. left. reflexivity.
    - apply Hwy. apply Hin. right. exact Hs'.
    - pose proof (StronglySorted_filter _ (fun x => hitb last (sl_key x)) _ (elems_dsorted rtl _ _ root Hwf)) as S.
      fold (pend root last) in S. rewrite Ep in S. apply StronglySorted_inv in S. destruct S as [_ S].
      rewrite Forall_forall in S. apply S. exact Hs'.
  Qed.

  (** with [compare_to_end == 0] in a layer, everything that is still to come in the layers above
      it is beyond the end *)
  Lemma beyond : forall brs rest,
    Forall is_link brs -> sinvr brs -> ep <> EP_INF ->
    K = full_key (rev brs) ++ rest -> (brs <> [] -> rest <> []) ->
    forall kv, In kv (remsr brs) -> inr (fst kv) = false.
  Proof.
    induction brs as [|e brs IH]; intros rest Hlk Hs Hne EK Hrne kv Hkv; [destruct Hkv|].
    cbn [remsr] in Hkv. cbn [sinvr] in Hs. destruct Hs as (HE & _ & Hs).
    apply Forall_cons_iff in Hlk. destruct Hlk as [[H9 Hw] Hlk].
    cbn [rev] in EK. rewrite full_key_snoc, H9 in EK.
    change (bytes_of_slice (ks (ie_key e)) 9) with (bytes_of_slice (ks (ie_key e)) 8) in EK.
    rewrite <- app_assoc in EK.
    assert (rest <> []) as Hr by (apply Hrne; discriminate).
    pose proof HK as HK'. rewrite EK in HK'. apply bytes_app_inv in HK'. destruct HK' as [_ HK'].
    apply bytes_app_inv in HK'. destruct HK' as [_ Hbr].
    apply in_app_or in Hkv. destruct Hkv as [Hkv|Hkv].
    - unfold after in Hkv. destruct HE as (root & _ & _ & _ & Eg & _). rewrite Eg in Hkv.
      apply in_flat_map in Hkv. destruct Hkv as (s & Hs' & Hkv). apply (pend_in rtl) in Hs'. destruct Hs' as [Hin Hhit].
      destruct (dcent_shape (length (rev brs)) _ (full_key (rev brs)) root s Eg Hin) as ((Hws & _) & _ & Hsh).
      destruct (Hsh kv Hkv) as (x & E & Hb & Ht).
      rewrite (hitb_dlt rtl _ _ Hw Hws) in Hhit. unfold IScanProofs.dlt in Hhit. rewrite <- Ht in Hhit.
      destruct (link_cmp (ie_key e) x rest Hw H9 Hb Hbr Hr) as [C1 C2].
      rewrite E. unfold inr. rewrite EK. destruct rtl.
      + rewrite in_left_app. specialize (C2 Hhit).
        destruct ep; cbn [in_left]; [apply lex_lt_asym; exact C2|rewrite C2; reflexivity|contradiction].
      + rewrite in_right_app. apply in_right_lt; [exact Hne|apply C1; exact Hhit].
    - apply (IH (bytes_of_slice (ks (ie_key e)) 8 ++ rest) Hlk Hs Hne EK); [|exact Hkv].
      intros _ X. apply app_eq_nil in X. destruct X as [_ X]. contradiction.
  Qed.

  Lemma beyond_inf : forall brs,
    rtl = false -> Forall is_link brs -> sinvr brs -> allff (stack_prefix (rev brs)) -> remsr brs = [].
  Proof.
    intros brs Er. induction brs as [|e brs IH]; intros Hlk Hs Hff; [reflexivity|].
    cbn [remsr]. cbn [sinvr] in Hs. destruct Hs as (HE & _ & Hs).
    apply Forall_cons_iff in Hlk. destruct Hlk as [[H9 Hw] Hlk].
    cbn [rev] in Hff. rewrite stack_prefix_snoc in Hff. apply Forall_app in Hff. destruct Hff as [Hff He].
    apply Forall_cons_iff in He. destruct He as [He _].
    rewrite (IH Hlk Hs Hff), app_nil_r.
    unfold after. destruct HE as (root & _ & _ & _ & Eg & _). rewrite Eg.
    assert (ie_key e = kt_max) as ->.
    { destruct (ie_key e) as [a b]. cbn [ks kl] in *. subst. reflexivity. }
    assert (pend root kt_max = []) as ->; [|reflexivity].
    destruct (wl_layer _ _ _ W _ root Eg) as [Hwf _].
    apply filter_none. intros s Hs'. apply (proj1 (dl_in rtl _ _)) in Hs'.
    pose proof (WF_bt_entries_ok _ _ _ Hwf) as X. rewrite Forall_forall in X. destruct (X s Hs') as [Hws _].
    rewrite (hitb_dlt rtl _ _ kt_max_wf Hws). unfold IScanProofs.dlt. rewrite Er. apply canon_max. exact Hws.
  Qed.

  Lemma rems_dead below :
    Forall is_link below -> sinv below ->
    RI (length below) (stack_prefix below) (full_key below) true ->
    forall kv, In kv (rems below) -> inr (fst kv) = false.
  Proof.
    intros Hlk Hs HR kv Hkv. cbn [RI] in HR. destruct HR as [(Er & Ee & Hff)|(Hne & rest & EK & Hrne)].
    - unfold rems in Hkv. rewrite (beyond_inf (rev below) Er) in Hkv; [destruct Hkv|apply Forall_rev; exact Hlk|exact Hs|].
      rewrite rev_involutive. exact Hff.
    - apply (beyond (rev below) rest); try assumption.
      + apply Forall_rev. exact Hlk.
      + rewrite rev_involutive. exact EK.
      + intros Hnn. destruct Hrne as [H0|H]; [|exact H]. destruct below; [contradiction|discriminate].
  Qed.

  (** *** [iscan_findnext] *)
  Lemma set_top_mkc below top e : set_top (mkc (below ++ [top])) e = mkc (below ++ [e]).
  Proof. unfold set_top, set_stack, mkc. cbn [ic_stack ic_end_key ic_end_ep ic_rtl]. rewrite removelast_last. reflexivity. Qed.
  Lemma push_mkc st e : push_elem (mkc st) e = mkc (st ++ [e]).
  Proof. reflexivity. Qed.

  Definition stuck (cbs : list (N * N)) (c : ictx) : iout :=
    {| io_status := IS_STUCK; io_value := None; io_cbs := cbs; io_ctx := c |}.

  Lemma ifindnext_unfold f below top cbs :
    ifindnext true (S f) ls (mkc (below ++ [top])) cbs =
    let c := mkc (below ++ [top]) in
    let p := stack_prefix below in
    match layer_get ls p with
    | None => stuck cbs c
    | Some root =>
      let leaves := bt_leaves root in
      match leaf_by_id leaves (ie_leaf top) with
      | None => stuck cbs c
      | Some l =>
        let cmp0 := ie_cmp0 top in
        let last := ie_key top in
        let ekt := if cmp0 then endt (length below) else (if rtl then kt_min else kt_max) in
        let es := ents_dir l in
        let n := length es in
        let no_cb_at_end := (negb true || cmp0) && ep_eqb ep EP_INCL && kt_eq last ekt in
        if Nat.leb n (ie_rank top) then
          let cbs' := if no_cb_at_end then cbs else cbs ++ [(lf_id l, lf_ver l)] in
          match neighbour leaves (lf_id l) None rtl with
          | None => {| io_status := (if cmp0 then IS_END else IS_CONT); io_value := None; io_cbs := cbs'; io_ctx := c |}
          | Some nb =>
            ifindnext true f ls (set_top c {| ie_key := last; ie_leaf := lf_id nb; ie_cmp0 := cmp0; ie_rank := 0 |}) cbs'
          end
        else
          match nth_error es (ie_rank top) with
          | None => stuck cbs c
          | Some (_, s) =>
            let kt := sl_key s in
            match idecide c cmp0 last kt ekt with
            | D_SKIP =>
              ifindnext true f ls (set_top c {| ie_key := last; ie_leaf := lf_id l; ie_cmp0 := cmp0;
                                                ie_rank := S (ie_rank top) |}) cbs
            | D_RANGE_END =>
              {| io_status := IS_END; io_value := None;
                 io_cbs := (if no_cb_at_end then cbs else cbs ++ [(lf_id l, lf_ver l)]); io_ctx := c |}
            | D_HIT =>
              let cbs' := cbs ++ [(lf_id l, lf_ver l)] in
              let top' := {| ie_key := kt; ie_leaf := lf_id l; ie_cmp0 := cmp0; ie_rank := S (ie_rank top) |} in
              if 8 <? kl kt then
                match layer_get ls (p ++ [ks kt]) with
                | None => stuck cbs' c
                | Some croot =>
                  match find_leaf croot child_kt with
                  | None => stuck cbs' c
                  | Some cl =>
                    let cmp0' := cmp0 && kt_eq kt ekt in
                    ifindnext true f ls (push_elem (set_top c top') {| ie_key := child_kt; ie_leaf := lf_id cl;
                                                                       ie_cmp0 := cmp0'; ie_rank := 0 |}) cbs'
                  end
                end
              else
                match sl_lv s with
                | LValue v => {| io_status := IS_OK; io_value := Some v; io_cbs := cbs'; io_ctx := set_top c top' |}
                | _ => stuck cbs' c
                end
            end
          end
      end
    end.
  Proof.
    cbn [ifindnext]. change (ic_stack (mkc (below ++ [top]))) with (below ++ [top]).
    rewrite rev_app_distr. cbn [rev app]. rewrite rev_involutive. reflexivity.
  Qed.

  Lemma neighbour_dir L A lf B :
    NoDup (map lf_id L) -> dl L = A ++ lf :: B -> neighbour L (lf_id lf) None rtl = hd_error B.
  Proof.
    intros Hnd E. unfold IScanProofs.dl in E. destruct rtl.
    - assert (L = rev B ++ lf :: rev A) as ->.
      { rewrite <- (rev_involutive L), E, rev_app_distr. cbn [rev]. rewrite <- app_assoc. reflexivity. }
      rewrite (neighbour_rtl _ _ _ None Hnd), rev_involutive. destruct B; reflexivity.
    - subst L. apply neighbour_fwd. exact Hnd.
  Qed.

  Lemma firstn_S_nth_error {A} (l : list A) n x :
    nth_error l n = Some x -> firstn (S n) l = firstn n l ++ [x].
  Proof.
    revert n. induction l as [|a l IH]; intros [|n] H; try discriminate.
    - injection H as ->. reflexivity.
    - cbn [nth_error] in H. cbn [firstn app]. f_equal. apply IH. exact H.
  Qed.

  Lemma skipn_nth_error {A} (l : list A) n x :
    nth_error l n = Some x -> skipn n l = x :: skipn (S n) l.
  Proof.
    revert n. induction l as [|a l IH]; intros [|n] H; try discriminate.
    - injection H as ->. reflexivity.
    - cbn [nth_error] in H. cbn [skipn]. apply IH. exact H.
  Qed.

  (** the entries of a layer, split at a position of the cursor *)
  Lemma pos_split root A lf B rank :
    dl (bt_leaves root) = A ++ lf :: B ->
    dl (bt_elems root) =
    map snd (flat_map ents_dir A ++ firstn rank (ents_dir lf)) ++
    map snd (skipn rank (ents_dir lf) ++ flat_map ents_dir B).
  Proof.
    intros E. rewrite <- (slots_dir rtl), E, flat_map_app. cbn [flat_map].
    rewrite <- (firstn_skipn rank (ents_dir lf)) at 1. rewrite <- !map_app, <- !app_assoc. reflexivity.
  Qed.

  Definition pos_cost (lf : leaf) (B : list leaf) (rank : nat) : nat :=
    (length (leaf_ranked lf) - rank) + 1 + list_sum (map (fun l => S (length (leaf_ranked l))) B).

  Definition fresh (lf : leaf) (e : ielem) : Prop :=
    exists x xs, ents_dir lf = x :: xs /\ ie_rank e = 0%nat /\ hitb (ie_key e) (sl_key (snd x)) = true.

  Lemma ents_dir_length lf : length (ents_dir lf) = length (leaf_ranked lf).
  Proof. apply (dl_length rtl). Qed.

  Lemma elem_wf root s : WF_bt None None root -> In s (bt_elems root) -> kt_wf (sl_key s) = true.
  Proof. intros Hwf Hs. pose proof (WF_bt_entries_ok _ _ _ Hwf) as X. rewrite Forall_forall in X. apply (X s Hs). Qed.

  (** everything in a layer entered through a link is pending *)
  Lemma pend_child croot q x :
    layer_get ls (q ++ [x]) = Some croot -> pend croot child_kt = dl (bt_elems croot).
  Proof.
    intros Eg. destruct (wl_layer _ _ _ W _ croot Eg) as [Hwf _]. unfold IScanProofs.pend. apply filter_all.
    intros s Hs. apply (proj1 (dl_in rtl _ _)) in Hs. pose proof (elem_wf croot s Hwf Hs) as Hw.
    unfold IScanProofs.child_kt, IScanProofs.hitb. destruct rtl.
    - unfold kt_gt. apply kt_lt_sup. exact Hw.
    - rewrite kt_lt_min. pose proof (wl_nz _ _ _ W q x croot s Eg Hs) as Hnz. apply negb_true_iff. apply N.eqb_neq. exact Hnz.
  Qed.

  Lemma last_ok_child : last_ok child_kt.
  Proof.
    unfold IScanProofs.last_ok, IScanProofs.child_kt. destruct rtl; [right; split; reflexivity|left; reflexivity].
  Qed.

  Definition fn_post (o : iout) (below : list ielem) (cmp0 : bool) (aft : list (key * value)) : Prop :=
    match aft with
    | [] => io_status o = (if cmp0 then IS_END else IS_CONT) /\ exists e', io_ctx o = mkc (below ++ [e'])
    | kv :: rest =>
      (io_status o = IS_END /\ forall kv', In kv' ((kv :: rest) ++ rems below) -> inr (fst kv') = false) \/
      (io_status o = IS_OK /\ io_value o = Some (snd kv) /\ inr (fst kv) = true /\
       exists st', io_ctx o = mkc st' /\ full_key st' = fst kv /\ sinv st' /\ st' <> [] /\
                   rems st' = rest ++ rems below)
    end.

  Lemma ifindnext_spec : forall fuel below top root A lf B cbs,
    sinv below -> Forall is_link below ->
    layer_get ls (stack_prefix below) = Some root ->
    dl (bt_leaves root) = A ++ lf :: B -> ie_leaf top = lf_id lf ->
    (forall x, In x (flat_map ents_dir A ++ firstn (ie_rank top) (ents_dir lf)) ->
               hitb (ie_key top) (sl_key (snd x)) = false) ->
    last_ok (ie_key top) ->
    RI (length below) (stack_prefix below) (full_key below) (ie_cmp0 top) ->
    (lvl (length below) <= fuel)%nat ->
    ((pos_cost lf B (ie_rank top) + lvl (length below) <= fuel)%nat \/ fresh lf top) ->
    fn_post (ifindnext true fuel ls (mkc (below ++ [top])) cbs) below (ie_cmp0 top) (after below top).
  Proof.
    induction fuel as [|f IH]; intros below top root A lf B cbs Hs Hlk Eg Edec Eid Hpassed Hlast HR Hfuel Hmode.
    { pose proof (depth_lt below root Eg). unfold lvl in Hfuel. lia. }
    pose proof (depth_lt below root Eg) as Hdepth.
    destruct (wl_layer _ _ _ W _ root Eg) as [Hwf Hnd].
    assert (In lf (bt_leaves root)) as Hlf.
    { apply (dl_in rtl). rewrite Edec. apply in_or_app; right; left; reflexivity. }
    pose proof (leaves_NoDup root (conj Hwf Hnd)) as Hndl.
    pose proof (full_key_length below Hlk) as Hpbl.
    rewrite ifindnext_unfold. cbv zeta. rewrite Eg, Eid, (leaf_by_id_spec _ lf Hndl Hlf).
    rewrite (neighbour_dir _ A lf B Hndl Edec).
    pose proof (pos_split root A lf B (ie_rank top) Edec) as Esplit.
    assert (pend root (ie_key top) =
            filter (fun s => hitb (ie_key top) (sl_key s))
                   (map snd (skipn (ie_rank top) (ents_dir lf) ++ flat_map ents_dir B))) as Epend.
    { unfold IScanProofs.pend. rewrite Esplit, filter_app.
      rewrite (filter_none (fun s => hitb (ie_key top) (sl_key s))); [reflexivity|].
      intros s Hs0. apply in_map_iff in Hs0. destruct Hs0 as (x & <- & Hx). apply Hpassed. exact Hx. }
    assert (after below top = flat_map (dcent (length below) (stack_prefix below) (full_key below)) (pend root (ie_key top))) as Eafter.
    { unfold after. rewrite Eg. reflexivity. }
    set (n := length below) in *. set (p := stack_prefix below) in *. set (pb := full_key below) in *.
    set (es := ents_dir lf) in *.
    destruct (Nat.leb_spec (length es) (ie_rank top)) as [Hex|Hin].
    - (* the border is exhausted *)
      assert (skipn (ie_rank top) es = []) as Esk by (apply skipn_all2; exact Hex).
      assert (firstn (ie_rank top) es = es) as Efi by (apply firstn_all2; exact Hex).
      destruct B as [|nb B'].
      + cbn [hd_error]. rewrite Eafter, Epend, Esk. cbn [flat_map app map filter fn_post io_status io_ctx].
        split; [reflexivity|]. exists top. reflexivity.
      + cbn [hd_error]. rewrite set_top_mkc.
        match goal with |- fn_post (ifindnext true f ls (mkc (below ++ [?t1])) ?cbs1) _ _ _ =>
          specialize (IH below t1 root (A ++ [lf]) nb B' cbs1 Hs Hlk Eg) end.
        cbn [ie_key ie_leaf ie_cmp0 ie_rank] in IH. apply IH; clear IH.
        * rewrite Edec, <- app_assoc. reflexivity.
        * reflexivity.
        * intros x Hx. apply Hpassed. rewrite Efi. cbn [firstn] in Hx. rewrite app_nil_r, flat_map_app in Hx.
          cbn [flat_map] in Hx. rewrite app_nil_r in Hx. exact Hx.
        * exact Hlast.
        * exact HR.
        * fold n. destruct Hmode as [Hm|(x & xs & Ex & Er & _)].
          -- unfold pos_cost, list_sum in Hm. cbn [map fold_right] in Hm. lia.
          -- fold es in Ex. rewrite Ex, Er in Hex. cbn [length] in Hex. lia.
        * left. fold n. destruct Hmode as [Hm|(x & xs & Ex & Er & _)].
          -- unfold pos_cost, list_sum in *. cbn [map fold_right] in Hm. lia.
          -- fold es in Ex. rewrite Ex, Er in Hex. cbn [length] in Hex. lia.
    - (* an entry *)
      destruct (nth_error es (ie_rank top)) as [[i s]|] eqn:Enth.
      2:{ apply nth_error_None in Enth. lia. }
      pose proof (firstn_S_nth_error es _ _ Enth) as Efs.
      pose proof (skipn_nth_error es _ _ Enth) as Esk.
      assert (In s (bt_elems root)) as Hsin.
      { apply (dl_in rtl). rewrite Esplit. apply in_or_app. right. rewrite Esk. left. reflexivity. }
      destruct (dcent_shape n p pb root s Eg Hsin) as ((Hws & Hlv) & Hlayer & Hshape).
      rewrite idecide_eq.
      destruct (hitb (ie_key top) (sl_key s)) eqn:Ehit; cbn [negb].
      2:{ (* skipped *)
        rewrite set_top_mkc.
        match goal with |- fn_post (ifindnext true f ls (mkc (below ++ [?t1])) ?cbs1) _ _ _ =>
          specialize (IH below t1 root A lf B cbs1 Hs Hlk Eg Edec) end.
        cbn [ie_key ie_leaf ie_cmp0 ie_rank] in IH. apply IH; clear IH.
        - reflexivity.
        - fold es. rewrite Efs. intros x Hx. rewrite app_assoc in Hx. apply in_app_or in Hx.
          destruct Hx as [Hx|[<-|[]]]; [apply Hpassed; exact Hx|exact Ehit].
        - exact Hlast.
        - exact HR.
        - fold n. destruct Hmode as [Hm|(x & xs & Ex & Er & Eh)].
          + unfold pos_cost in Hm. lia.
          + fold es in Ex. rewrite Er, Ex in Enth. cbn in Enth. injection Enth as ->. cbn [snd] in Eh. congruence.
        - left. fold n. destruct Hmode as [Hm|(x & xs & Ex & Er & Eh)].
          + unfold pos_cost in *. pose proof (ents_dir_length lf). fold es in H. lia.
          + fold es in Ex. rewrite Er, Ex in Enth. cbn in Enth. injection Enth as ->. cbn [snd] in Eh. congruence. }
      (* the first pending entry *)
      set (pend' := filter (fun s0 => hitb (ie_key top) (sl_key s0)) (map snd (skipn (S (ie_rank top)) es ++ flat_map ents_dir B))).
      assert (pend root (ie_key top) = s :: pend') as Epend1.
      { rewrite Epend, Esk. cbn [app map filter snd]. rewrite Ehit. reflexivity. }
      rewrite Eafter, Epend1. cbn [flat_map].
      pose proof (pend_step rtl _ _ root _ s pend' Hwf Hlast Epend1) as Estep.
      set (top' := {| ie_key := sl_key s; ie_leaf := lf_id lf; ie_cmp0 := ie_cmp0 top; ie_rank := S (ie_rank top) |}).
      (* the position after the entry *)
      assert (EOK below top') as HEOK.
      { exists root, A, lf, B. split; [exact Eg|]. split; [exact Edec|]. split; [reflexivity|].
        split; [|split; [left; exact Hws|exact HR]].
        cbn [ie_rank ie_key top']. fold es. rewrite Efs, app_assoc. intros x Hx.
        pose proof (elems_dsorted rtl _ _ root Hwf) as Hsorted. rewrite Esplit, Esk in Hsorted.
        apply StronglySorted_app_inv in Hsorted. destruct Hsorted as (_ & _ & Hcross).
        assert (kt_wf (sl_key (snd x)) = true) as Hwx.
        { apply (elem_wf root _ Hwf). apply (dl_in rtl). rewrite Esplit, Esk. apply in_app_or in Hx.
          destruct Hx as [Hx|[<-|[]]]; [apply in_or_app; left; apply in_map; exact Hx|].
          apply in_or_app. right. left. reflexivity. }
        rewrite (hitb_dlt rtl _ _ Hws Hwx).
        apply in_app_or in Hx. destruct Hx as [Hx|[<-|[]]]; [|apply dlt_irrefl].
        apply dlt_asym. apply Hcross; [apply in_map; exact Hx|left; reflexivity]. }
      assert (after below top' = flat_map (dcent n p pb) pend') as Eafter'.
      { unfold after. fold p n pb. rewrite Eg. cbn [ie_key top']. rewrite Estep. reflexivity. }
      destruct (ie_cmp0 top && negb (hitf (sl_key s) (endt n))) eqn:Eend.
      { (* beyond the end *)
        apply andb_true_iff in Eend. destruct Eend as [Ec Eh]. apply negb_true_iff in Eh.
        rewrite Ec in *. cbn [negb]. rewrite Eh.
        assert (forall kv', In kv' ((dcent n p pb s ++ flat_map (dcent n p pb) pend') ++ rems below) -> inr (fst kv') = false) as Hdead.
        { intros kv' Hkv'. apply in_app_or in Hkv'. destruct Hkv' as [Hkv'|Hkv'].
          - apply (pend_dead n p pb root (ie_key top) s pend' Eg HR Hpbl Epend1 Eh). cbn [flat_map]. exact Hkv'.
          - apply (rems_dead below Hlk Hs HR). exact Hkv'. }
        destruct (dcent n p pb s ++ flat_map (dcent n p pb) pend') as [|kv rest] eqn:Eaft; cbn [fn_post io_status io_ctx].
        - split; [reflexivity|]. exists top. reflexivity.
        - left. split; [reflexivity|exact Hdead]. }
      assert ((if negb (ie_cmp0 top) then D_HIT
               else if hitf (sl_key s) (if ie_cmp0 top then endt n else if rtl then kt_min else kt_max)
                    then D_HIT else D_RANGE_END) = D_HIT) as ->.
      { destruct (ie_cmp0 top); cbn [negb andb] in *; [|reflexivity]. apply negb_false_iff in Eend. rewrite Eend. reflexivity. }
      destruct (sl_lv s) as [|v|] eqn:Elv; [contradiction| |].
      + (* a value: delivered *)
        assert (8 <? kl (sl_key s) = false) as -> by lia.
        rewrite set_top_mkc. fold top'. rewrite (dcent_value n p pb s v Elv). cbn [app fn_post io_status io_value io_ctx fst snd].
        right. split; [reflexivity|]. split; [reflexivity|]. split.
        * destruct (ie_cmp0 top) eqn:Ec; cbn [andb] in Eend.
          -- apply negb_false_iff in Eend. rewrite <- (dec_value n p pb (sl_key s) HR Hpbl Hws Hlv). exact Eend.
          -- destruct HR as [Hn0 HR]. apply HR; [apply bos_bytes|].
             apply tbytes_not_nil. destruct below as [|b0 below'] using rev_ind; [contradiction|].
             unfold p in Eg. rewrite stack_prefix_snoc in Eg. exact (wl_nz _ _ _ W _ _ root s Eg Hsin).
        * exists (below ++ [top']). split; [reflexivity|]. split; [rewrite full_key_snoc; reflexivity|].
          split; [apply sinv_snoc; split; [exact HEOK|split; assumption]|].
          split; [intros X; apply app_eq_nil in X; destruct X as [_ X]; discriminate|].
          rewrite rems_snoc, Eafter'. reflexivity.
      + (* a link: the layer below *)
        rewrite Hlv. change (8 <? 9) with true. cbv iota.
        destruct (layer_get ls (p ++ [ks (sl_key s)])) as [croot|] eqn:Egc; [|exfalso; exact (Hlayer eq_refl eq_refl)].
        destruct (wl_layer _ _ _ W _ croot Egc) as [Hwfc Hndc].
        destruct (find_leaf_child rtl croot Hwfc) as (cl & Ac & Bc & Efc & Edecc & Epassc).
        rewrite Efc. rewrite set_top_mkc, push_mkc. fold top'.
        set (child := {| ie_key := child_kt; ie_leaf := lf_id cl;
                         ie_cmp0 := ie_cmp0 top && kt_eq (sl_key s) (if ie_cmp0 top then endt n else if rtl then kt_min else kt_max);
                         ie_rank := 0 |}).
        set (below' := below ++ [top']).
        assert (stack_prefix below' = p ++ [ks (sl_key s)]) as Ep' by (unfold below'; rewrite stack_prefix_snoc; reflexivity).
        assert (full_key below' = pb ++ bytes_of_slice (ks (sl_key s)) 8) as Epb'.
        { unfold below'. rewrite full_key_snoc. cbn [ie_key top']. rewrite Hlv. reflexivity. }
        assert (length below' = S n) as En' by (unfold below'; rewrite app_length; cbn [length]; lia).
        assert (Forall is_link below') as Hlk'.
        { apply Forall_app. split; [exact Hlk|]. constructor; [split; [exact Hlv|exact Hws]|constructor]. }
        assert (sinv below') as Hs' by (apply sinv_snoc; split; [exact HEOK|split; assumption]).
        assert (In cl (bt_leaves croot)) as Hcl.
        { apply (dl_in rtl). rewrite Edecc. apply in_or_app; right; left; reflexivity. }
        destruct (wl_parent _ _ _ W _ _ croot Egc) as [Hcne _].
        assert (after below' child = dcent n p pb s) as Eafterc.
        { unfold after. rewrite Ep', Egc, Epb', En'. cbn [ie_key child].
          rewrite (pend_child croot p _ Egc), <- (dlayer_eq (S n) _ _ croot Egc).
          symmetry. apply dcent_link; [exact Elv|exact Hdepth]. }
        specialize (IH below' child croot Ac cl Bc (cbs ++ [(lf_id lf, lf_ver lf)]) Hs' Hlk').
        rewrite Ep', Epb', En', Eafterc in IH.
        assert (fn_post (ifindnext true f ls (mkc (below' ++ [child])) (cbs ++ [(lf_id lf, lf_ver lf)])) below' (ie_cmp0 child) (dcent n p pb s)) as Hpost.
        { apply IH; clear IH.
          - exact Egc.
          - exact Edecc.
          - reflexivity.
          - rewrite Epassc. cbn [firstn app]. intros x [].
          - apply last_ok_child.
          - cbn [ie_cmp0 child]. destruct (ie_cmp0 top) eqn:Ec; cbn [andb] in *.
            + apply negb_false_iff in Eend. apply (proj2 (dec_link n p pb (sl_key s) HR Hpbl Hws Hlv) Eend).
            + apply RI_false_ext. exact HR.
          - unfold lvl in *. lia.
          - right. destruct (ents_dir cl) as [|x xs] eqn:Ecl.
            + exfalso. apply (bt_leaves_nonempty _ _ _ Hwfc Hcne cl Hcl). unfold leaf_entries.
              unfold IScanProofs.ents_dir in Ecl. apply (proj1 (dl_eq_nil rtl _)) in Ecl. rewrite Ecl. reflexivity.
            + exists x, xs. split; [exact Ecl|]. split; [reflexivity|]. cbn [ie_key child].
              assert (In (snd x) (pend croot child_kt)) as Hx.
              { rewrite (pend_child croot p _ Egc). rewrite <- (slots_dir rtl), Edecc, flat_map_app. cbn [flat_map].
                rewrite Epassc, Ecl. cbn [app map]. left. reflexivity. }
              apply (pend_in rtl) in Hx. apply Hx. }
        clear IH.
        assert (dcent n p pb s <> []) as Hnn.
        { rewrite (dcent_link n p pb s Elv Hdepth). unfold dlayer. intros X. apply (proj1 (dl_eq_nil rtl _)) in X. revert X.
          apply (clayer_nonempty ctr ls W).
          - rewrite Egc. discriminate.
          - destruct p; discriminate.
          - rewrite app_length. cbn [length]. unfold lvl, p. rewrite stack_prefix_length. fold n. lia. }
        destruct (dcent n p pb s) as [|kv restc] eqn:Edc; [contradiction|].
        cbn [fn_post] in Hpost. cbn [app fn_post].
        destruct Hpost as [[H1 H2]|(H1 & H2 & H3 & st' & H4 & H5 & H6 & H7 & H8)].
        * left. split; [exact H1|]. intros kv' Hkv'. apply H2.
          unfold below'. rewrite rems_snoc, Eafter'. rewrite <- app_assoc in Hkv'. exact Hkv'.
        * right. split; [exact H1|]. split; [exact H2|]. split; [exact H3|]. exists st'.
          split; [exact H4|]. split; [exact H5|]. split; [exact H6|]. split; [exact H7|].
          rewrite H8. unfold below'. rewrite rems_snoc, Eafter', app_assoc. reflexivity.
  Qed.

  (** *** fuel: [big] covers one border chain and one descent *)
  Definition big : nat := (layers_entries ls + 4)%nat.

  Lemma pos_cost_bound p root A lf B rank :
    layer_get ls p = Some root -> dl (bt_leaves root) = A ++ lf :: B ->
    (pos_cost lf B rank + length ls <= big)%nat.
  Proof.
    intros Eg Edec. pose proof (layers_entries_ge ls p root (layer_get_in _ _ _ Eg)) as G.
    assert (list_sum (map (fun l => S (length (leaf_ranked l))) (dl (bt_leaves root))) =
            list_sum (map (fun l => S (length (leaf_ranked l))) (bt_leaves root))) as E1.
    { apply (dl_list_sum rtl). }
    rewrite Edec, map_app, list_sum_app in E1. cbn [map] in E1.
    rewrite (sum_S_length leaf_ranked (bt_leaves root)) in E1.
    unfold pos_cost, big. unfold list_sum in *. cbn [fold_right] in E1. lia.
  Qed.

  (** *** [iscan_next] *)
  Definition out_ok (o : iout) (R : list (key * value)) : Prop :=
    match R with
    | [] => io_status o = IS_END
    | kv :: rest =>
      (io_status o = IS_END /\ forall kv', In kv' (kv :: rest) -> inr (fst kv') = false) \/
      (io_status o = IS_OK /\ io_value o = Some (snd kv) /\ inr (fst kv) = true /\
       exists st', io_ctx o = mkc st' /\ full_key st' = fst kv /\ sinv st' /\ st' <> [] /\ rems st' = rest)
    end.

  Lemma inext_spec : forall fuel st cbs,
    sinv st -> st <> [] -> (length st <= fuel)%nat ->
    out_ok (inext true fuel big ls (mkc st) cbs) (rems st).
  Proof.
    induction fuel as [|f IH]; intros st cbs Hs Hne Hfuel.
    { destruct st; [contradiction|cbn [length] in Hfuel; lia]. }
    destruct (exists_last Hne) as (below & top & ->). clear Hne.
    apply sinv_snoc in Hs. destruct Hs as (HE & Hlk & Hs).
    destruct HE as (root & A & lf & B & Eg & Edec & Eid & Hpassed & Hlast & HR).
    pose proof (depth_lt below root Eg) as Hdepth.
    pose proof (pos_cost_bound _ root A lf B (ie_rank top) Eg Edec) as Hb.
    pose proof (ifindnext_spec big below top root A lf B cbs Hs Hlk Eg Edec Eid Hpassed Hlast HR) as Hpost.
    assert (lvl (length below) <= length ls)%nat as Hl by (unfold lvl; lia).
    specialize (Hpost ltac:(lia) ltac:(left; lia)).
    cbn [inext]. set (o := ifindnext true big ls (mkc (below ++ [top])) cbs) in *.
    rewrite rems_snoc. destruct (after below top) as [|kv rest]; cbn [fn_post] in Hpost.
    - destruct Hpost as [Est (e' & Ectx)]. cbn [app]. destruct (ie_cmp0 top) eqn:Ec; rewrite Est.
      + destruct (rems below) as [|kv rest] eqn:Er; cbn [out_ok io_status]; [reflexivity|].
        left. split; [reflexivity|]. rewrite <- Er. apply (rems_dead below Hlk Hs HR).
      + rewrite Ectx. cbn [mkc ic_stack]. rewrite removelast_last.
        destruct below as [|b below']; [reflexivity|].
        apply IH; [exact Hs|discriminate|]. rewrite app_length in Hfuel. cbn [length] in *. lia.
    - destruct Hpost as [[Est Hdead]|(Est & Ev & Hin & st' & Ectx & Efk & Hs' & Hne' & Er)]; rewrite Est.
      + cbn [app out_ok io_status]. left. split; [reflexivity|exact Hdead].
      + cbn [app out_ok]. right. split; [exact Est|]. split; [exact Ev|]. split; [exact Hin|].
        exists st'. repeat split; assumption.
  Qed.

  (** *** [iscan_findfirst]: the descent along the start key *)
  Variable Sk : key.         (* the start key *)
  Variable sp : endpoint.    (* the start point kind *)
  Hypothesis HS : bytes Sk.
  Hypothesis Hsp : rtl = false -> sp <> EP_INF.
  Definition usekey : bool := negb (rtl && ep_eqb sp EP_INF).
  Hypothesis Hord : ep <> EP_INF -> usekey = true -> (if rtl then lex_lt Sk K else lex_lt K Sk) = false.
  Hypothesis Hval : sp = EP_INCL -> inr Sk = true.
  Hypothesis Hlive : forall p root lf, layer_get ls p = Some root -> In lf (bt_leaves root) ->
      get_deleted (lf_ver lf) && get_root (lf_ver lf) = true -> bt_elems root = [].

  (** membership on the side of the start point *)
  Definition ins (k : key) : bool := if rtl then in_right Sk sp k else in_left Sk sp k.
  Definition dkt (start : key) : ktuple := if rtl && ep_eqb sp EP_INF then kt_max else tuple_of_key start.

  Lemma dkt_wf start : bytes start -> kt_wf (dkt start) = true.
  Proof. intros H. unfold dkt. destruct (rtl && ep_eqb sp EP_INF); [reflexivity|apply tuple_of_key_wf; exact H]. Qed.

  Lemma usekey_false : usekey = false -> rtl = true /\ sp = EP_INF.
  Proof.
    unfold usekey. intros H. apply negb_false_iff, andb_true_iff in H. destruct H as [H1 H2].
    split; [exact H1|]. destruct sp; try discriminate. reflexivity.
  Qed.

  Lemma dkt_usekey start : usekey = true -> dkt start = tuple_of_key start.
  Proof. unfold usekey, dkt. intros H. apply negb_true_iff in H. rewrite H. reflexivity. Qed.

  (** an entry other than the start tuple is wholly on one side of the start point *)
  Lemma ins_hit n p pb root start s' kv :
    layer_get ls p = Some root -> In s' (bt_elems root) ->
    (usekey = true -> Sk = pb ++ start) -> bytes start -> sl_key s' <> dkt start ->
    In kv (dcent n p pb s') -> ins (fst kv) = hitb (dkt start) (sl_key s').
  Proof.
    intros Eg Hin HSk Hb Hneq Hkv.
    destruct (dcent_shape n p pb root s' Eg Hin) as ((Hws & _) & _ & Hsh).
    destruct (Hsh kv Hkv) as (x & E & Hx & Ht). pose proof (dkt_wf start Hb) as Hwk.
    rewrite (hitb_dlt rtl _ _ Hwk Hws). unfold IScanProofs.dlt.
    destruct usekey eqn:Eu.
    - rewrite (dkt_usekey start Eu) in *. specialize (HSk eq_refl).
      pose proof (lex_tuple start x Hb Hx) as L1. pose proof (lex_tuple x start Hx Hb) as L2.
      rewrite Ht in L1, L2.
      assert (kt_eq (tuple_of_key start) (sl_key s') = false) as Q1.
      { destruct (kt_eq (tuple_of_key start) (sl_key s')) eqn:Q; [|reflexivity]. apply kt_eq_iff in Q. congruence. }
      assert (kt_eq (sl_key s') (tuple_of_key start) = false) as Q2 by (rewrite kt_eq_sym; exact Q1).
      rewrite Q1 in L1. rewrite Q2 in L2. cbn [andb] in L1, L2. rewrite orb_false_r in L1, L2.
      assert (canon_lt (tuple_of_key start) (sl_key s') = negb (canon_lt (sl_key s') (tuple_of_key start))) as Tr.
      { destruct (canon_cases (tuple_of_key start) (sl_key s')) as [H|[H|H]].
        - rewrite H, (canon_lt_asym _ _ H). reflexivity.
        - congruence.
        - rewrite H, (canon_lt_asym _ _ H). reflexivity. }
      unfold ins. rewrite E, HSk. destruct rtl eqn:Er.
      + rewrite in_right_app. destruct sp eqn:Esp; cbn [in_right].
        * exact L2.
        * rewrite L1, Tr, negb_involutive. reflexivity.
        * unfold usekey in Eu. rewrite Er, Esp in Eu. discriminate.
      + rewrite in_left_app. destruct sp eqn:Esp; cbn [in_left].
        * exact L1.
        * rewrite L2, Tr. reflexivity.
        * exfalso. exact (Hsp eq_refl eq_refl).
    - destruct (usekey_false Eu) as [Er Es]. unfold ins, dkt in *. rewrite Er, Es in *. cbn [ep_eqb andb in_right] in *.
      destruct (canon_cases (sl_key s') kt_max) as [H|[H|H]].
      + rewrite H. reflexivity.
      + contradiction.
      + rewrite (canon_max _ Hws) in H. discriminate.
  Qed.

  Lemma filter_ins_fm n p pb root start : forall L,
    layer_get ls p = Some root -> (forall s', In s' L -> In s' (bt_elems root) /\ sl_key s' <> dkt start) ->
    (usekey = true -> Sk = pb ++ start) -> bytes start ->
    filter (fun kv => ins (fst kv)) (flat_map (dcent n p pb) L) =
    flat_map (dcent n p pb) (filter (fun s' => hitb (dkt start) (sl_key s')) L).
  Proof.
    induction L as [|a L IH]; intros Eg HL HSk Hb; [reflexivity|].
    cbn [flat_map filter]. rewrite filter_app, IH; try assumption.
    2:{ intros s' Hs'. apply HL. right. exact Hs'. }
    destruct (HL a (or_introl eq_refl)) as [Ha1 Ha2].
    destruct (hitb (dkt start) (sl_key a)) eqn:Eh; cbn [flat_map].
    - f_equal. apply filter_all. intros kv Hkv. rewrite (ins_hit n p pb root start a kv Eg Ha1 HSk Hb Ha2 Hkv). exact Eh.
    - rewrite filter_none; [reflexivity|]. intros kv Hkv.
      rewrite (ins_hit n p pb root start a kv Eg Ha1 HSk Hb Ha2 Hkv). exact Eh.
  Qed.

  Lemma layer_ins_absent n p pb root start :
    layer_get ls p = Some root -> (usekey = true -> Sk = pb ++ start) -> bytes start ->
    ~ In (dkt start) (bt_keys root) ->
    filter (fun kv => ins (fst kv)) (dlayer n p pb) = flat_map (dcent n p pb) (pend root (dkt start)).
  Proof.
    intros Eg HSk Hb Hnin. rewrite (dlayer_eq n p pb root Eg).
    apply (filter_ins_fm n p pb root start); try assumption.
    intros s' Hs'. apply (proj1 (dl_in rtl _ _)) in Hs'. split; [exact Hs'|].
    intros E. apply Hnin. rewrite <- E. apply in_elems_in_keys. exact Hs'.
  Qed.

  Lemma layer_ins_found n p pb root start s :
    layer_get ls p = Some root -> (usekey = true -> Sk = pb ++ start) -> bytes start ->
    In s (bt_elems root) -> sl_key s = dkt start ->
    filter (fun kv => ins (fst kv)) (dlayer n p pb) =
    filter (fun kv => ins (fst kv)) (dcent n p pb s) ++ flat_map (dcent n p pb) (pend root (dkt start)).
  Proof.
    intros Eg HSk Hb Hin Hk. rewrite (dlayer_eq n p pb root Eg).
    destruct (wl_layer _ _ _ W p root Eg) as [Hwf _].
    pose proof (elems_dsorted rtl _ _ root Hwf) as Hsorted. unfold IScanProofs.pend.
    assert (In s (dl (bt_elems root))) as Hin' by (apply (dl_in rtl); exact Hin).
    destruct (in_split _ _ Hin') as (X & Y & EXY). rewrite EXY in *.
    assert (forall y, In y (X ++ s :: Y) -> In y (bt_elems root)) as Hsub.
    { intros y Hy. rewrite <- EXY in Hy. apply (proj1 (dl_in rtl _ _)) in Hy. exact Hy. }
    apply StronglySorted_app_inv in Hsorted. destruct Hsorted as (_ & HsY & Hcross).
    apply StronglySorted_inv in HsY. destruct HsY as [_ HsY]. rewrite Forall_forall in HsY.
    assert (forall x, In x X -> sl_key x <> dkt start /\ hitb (dkt start) (sl_key x) = false) as HX.
    { intros x Hx. pose proof (Hcross x s Hx (or_introl eq_refl)) as D. split.
      - intros E. rewrite E, <- Hk, dlt_irrefl in D. discriminate.
      - rewrite <- Hk. rewrite (hitb_dlt rtl); [apply dlt_asym; exact D| |];
          apply (elem_wf root _ Hwf); apply Hsub; apply in_or_app; [right; left; reflexivity|left; exact Hx]. }
    assert (forall y, In y Y -> sl_key y <> dkt start) as HY.
    { intros y Hy E. pose proof (HsY y Hy) as D. rewrite E, <- Hk, dlt_irrefl in D. discriminate. }
    rewrite !flat_map_app, !filter_app. cbn [flat_map filter].
    rewrite (filter_app _ (dcent n p pb s)).
    rewrite (filter_ins_fm n p pb root start X), (filter_ins_fm n p pb root start Y); try assumption.
    - rewrite (filter_none _ X) by (intros x Hx; apply (HX x Hx)).
      assert (hitb (dkt start) (sl_key s) = false) as ->.
      { rewrite Hk, (hitb_dlt rtl) by (apply dkt_wf; exact Hb). apply dlt_irrefl. }
      reflexivity.
    - intros y Hy. split; [apply Hsub; apply in_or_app; right; right; exact Hy|apply HY; exact Hy].
    - intros x Hx. split; [apply Hsub; apply in_or_app; left; exact Hx|apply (HX x Hx)].
  Qed.

  (** the start is not beyond the end *)
  Lemma start_dlt n p pb start :
    RI n p pb true -> length pb = (8 * n)%nat -> bytes start -> (usekey = true -> Sk = pb ++ start) ->
    dlt (endt n) (dkt start) = false.
  Proof.
    intros HR Hl Hb HSk. pose proof (dkt_wf start Hb) as Hwk. unfold IScanProofs.dlt.
    cbn [RI] in HR. destruct HR as [(Er & Ee & _)|(Hne & rest & EK & _)].
    - rewrite (endt_inf n Er Ee), Er. apply canon_max. exact Hwk.
    - pose proof HK as HK'. rewrite EK in HK'. apply bytes_app_inv in HK'. destruct HK' as [_ Hrest].
      rewrite (endt_rest n pb rest Hne EK Hl).
      destruct usekey eqn:Eu.
      + rewrite (dkt_usekey start Eu). specialize (HSk eq_refl). specialize (Hord Hne eq_refl).
        rewrite HSk, EK in Hord. destruct rtl.
        * rewrite lex_lt_app, (lex_tuple start rest Hb Hrest) in Hord. apply orb_false_iff in Hord. apply Hord.
        * rewrite lex_lt_app, (lex_tuple rest start Hrest Hb) in Hord. apply orb_false_iff in Hord. apply Hord.
      + destruct (usekey_false Eu) as [Er Es]. unfold dkt. rewrite Er, Es. cbn [ep_eqb andb].
        apply canon_max. apply tuple_of_key_wf. exact Hrest.
  Qed.

  Lemma hitf_start kt ekt :
    kt_wf kt = true -> kl kt = 9 -> kt_wf ekt = true -> dlt ekt kt = false -> hitf kt ekt = true.
  Proof.
    intros Hw H9 Hwe D. rewrite (hitf_canon kt ekt Hw Hwe). rewrite H9. change (8 <? 9) with true.
    rewrite andb_true_r. unfold IScanProofs.dlt in D.
    destruct rtl.
    - rewrite D. destruct (ep_eqb ep EP_INCL); [reflexivity|].
      destruct (canon_cases ekt kt) as [H|[H|H]]; [rewrite H; reflexivity| |congruence].
      subst. rewrite kt_eq_refl. apply orb_true_r.
    - rewrite D. destruct (ep_eqb ep EP_INCL); [reflexivity|].
      destruct (canon_cases kt ekt) as [H|[H|H]]; [rewrite H; reflexivity| |congruence].
      subst. rewrite kt_eq_refl. apply orb_true_r.
  Qed.

  Definition ff_post (o : iout) (below : list ielem) (root : bt) (content : list (key * value)) : Prop :=
    (io_status o = IS_END /\ bt_elems root = []) \/
    exists news, news <> [] /\ io_ctx o = mkc (below ++ news) /\ sinv (below ++ news) /\
      ((io_status o = IS_CONT /\
        rems (below ++ news) = filter (fun kv => ins (fst kv)) content ++ rems below) \/
       (io_status o = IS_OK /\ exists kv, io_value o = Some (snd kv) /\ full_key (below ++ news) = fst kv /\
          inr (fst kv) = true /\
          kv :: rems (below ++ news) = filter (fun kv => ins (fst kv)) content ++ rems below)).

  Lemma ins_self : sp <> EP_INF -> ins Sk = ep_eqb sp EP_INCL.
  Proof.
    intros H. unfold ins. destruct rtl, sp; cbn [in_left in_right ep_eqb]; rewrite ?lex_lt_irrefl; try reflexivity; contradiction.
  Qed.

  Lemma ifindfirst_spec : forall fuel below start one_point cmp0 cbs root,
    sinv below -> Forall is_link below ->
    layer_get ls (stack_prefix below) = Some root ->
    bytes start -> (usekey = true -> Sk = full_key below ++ start) ->
    RI (length below) (stack_prefix below) (full_key below) cmp0 ->
    (lvl (length below) <= fuel)%nat ->
    ff_post (ifindfirst true fuel ls (mkc below) start sp one_point cmp0 cbs) below root
            (dlayer (length below) (stack_prefix below) (full_key below)).
  Proof.
    induction fuel as [|f IH]; intros below start one_point cmp0 cbs root Hs Hlk Eg Hb HSk HR Hfuel.
    { pose proof (depth_lt below root Eg). unfold lvl in Hfuel. lia. }
    pose proof (depth_lt below root Eg) as Hdepth.
    destruct (wl_layer _ _ _ W _ root Eg) as [Hwf Hnd].
    pose proof (full_key_length below Hlk) as Hpbl.
    pose proof (dkt_wf start Hb) as Hwk.
    cbn [ifindfirst]. change (ic_stack (mkc below)) with below. rewrite Eg.
    change (if ic_rtl (mkc below) && ep_eqb sp EP_INF then kt_max else tuple_of_key start) with (dkt start).
    destruct (find_leaf_dir rtl root (dkt start) Hwf Hwk) as (lf & A & B & Ef & Edec & Hpassed).
    rewrite Ef.
    assert (In lf (bt_leaves root)) as Hlf.
    { apply (dl_in rtl). rewrite Edec. apply in_or_app; right; left; reflexivity. }
    destruct (get_deleted (lf_ver lf) && get_root (lf_ver lf)) eqn:Edel.
    { left. split; [reflexivity|]. exact (Hlive _ root lf Eg Hlf Edel). }
    set (n := length below) in *. set (p := stack_prefix below) in *. set (pb := full_key below) in *.
    set (e := {| ie_key := dkt start; ie_leaf := lf_id lf; ie_cmp0 := cmp0; ie_rank := 0 |}).
    assert (EOK below e) as HEOK.
    { exists root, A, lf, B. split; [exact Eg|]. split; [exact Edec|]. split; [reflexivity|].
      split; [|split; [left; exact Hwk|exact HR]].
      cbn [ie_rank ie_key e firstn]. rewrite app_nil_r. exact Hpassed. }
    assert (sinv (below ++ [e])) as Hs1 by (apply sinv_snoc; split; [exact HEOK|split; assumption]).
    assert (after below e = flat_map (dcent n p pb) (pend root (dkt start))) as Eafter.
    { unfold after. fold p n pb. rewrite Eg. reflexivity. }
    destruct (find_leaf_lookup root (dkt start) lf Hwf Hwk Ef) as [HN HSm].
    destruct (leaf_lookup lf (dkt start)) as [[[r slot] s]|] eqn:El.
    - destruct (HSm r slot s eq_refl) as (Hsin & Hsk & _).
      destruct (dcent_shape n p pb root s Eg Hsin) as ((Hws & Hlv) & Hlayer & _).
      pose proof (layer_ins_found n p pb root start s Eg HSk Hb Hsin Hsk) as Elayer.
      destruct (sl_lv s) as [|v|] eqn:Elv; [contradiction| |].
      + (* the start key itself *)
        assert (8 <? kl (sl_key s) = false) as -> by (clear - Hlv; lia).
        assert (usekey = true) as Eu.
        { destruct usekey eqn:Eu; [reflexivity|]. destruct (usekey_false Eu) as [Er Es].
          unfold dkt in Hsk. rewrite Er, Es in Hsk. cbn [andb ep_eqb] in Hsk. rewrite Hsk in Hlv. cbn in Hlv. clear - Hlv. lia. }
        specialize (HSk Eu). rewrite (dkt_usekey start Eu) in Hsk.
        assert (length start <= 8)%nat as Hlen.
        { destruct (Nat.le_gt_cases (length start) 8) as [H|H]; [exact H|].
          pose proof (tuple_kl_long start H) as X. rewrite Hsk, X in Hlv. clear - Hlv. lia. }
        assert (pb ++ tbytes (sl_key s) = Sk) as Ekey.
        { rewrite Hsk, (tbytes_tuple_short start Hb Hlen). symmetry. exact HSk. }
        assert (sp <> EP_INF) as Hspi.
        { intros Es. unfold usekey in Eu. rewrite Es in Eu. destruct rtl eqn:Er; [discriminate|]. exact (Hsp eq_refl Es). }
        rewrite (dcent_value n p pb s v Elv), Ekey in Elayer. cbn [filter fst] in Elayer.
        rewrite (ins_self Hspi) in Elayer.
        destruct (ep_eqb sp EP_INCL) eqn:Esp.
        * right. exists [e]. split; [discriminate|]. split; [reflexivity|]. split; [exact Hs1|].
          right. split; [reflexivity|]. exists (Sk, v). cbn [fst snd io_value]. split; [reflexivity|].
          split; [rewrite full_key_snoc; cbn [ie_key e]; rewrite (dkt_usekey start Eu), <- Hsk; exact Ekey|].
          split; [apply Hval; destruct sp; try discriminate; reflexivity|].
          rewrite rems_snoc, Eafter, Elayer. reflexivity.
        * right. exists [e]. split; [discriminate|]. split; [reflexivity|]. split; [exact Hs1|].
          left. split; [reflexivity|]. rewrite rems_snoc, Eafter, Elayer. reflexivity.
      + (* a link: the layer below *)
        rewrite Hlv. change (8 <? 9) with true. cbv iota. rewrite push_mkc. fold e.
        destruct (layer_get ls (p ++ [ks (sl_key s)])) as [croot|] eqn:Egc; [|exfalso; exact (Hlayer eq_refl eq_refl)].
        set (below' := below ++ [e]).
        assert (stack_prefix below' = p ++ [ks (sl_key s)]) as Ep'.
        { unfold below'. rewrite stack_prefix_snoc. cbn [ie_key e]. rewrite <- Hsk. reflexivity. }
        assert (full_key below' = pb ++ bytes_of_slice (ks (sl_key s)) 8) as Epb'.
        { unfold below'. rewrite full_key_snoc. cbn [ie_key e]. rewrite <- Hsk, Hlv. reflexivity. }
        assert (length below' = S n) as En' by (unfold below', n; rewrite app_length; cbn [length]; clear; lia).
        assert (Forall is_link below') as Hlk'.
        { apply Forall_app. split; [exact Hlk|]. constructor; [|constructor]. split; cbn [ie_key e]; rewrite <- Hsk; assumption. }
        specialize (IH below' (skipn 8 start) one_point
                       (cmp0 && kt_eq (dkt start) (end_tuple (mkc below) (length below))) cbs croot Hs1 Hlk').
        rewrite Ep', Epb', En' in IH.
        assert (ff_post (ifindfirst true f ls (mkc below') (skipn 8 start) sp one_point
                           (cmp0 && kt_eq (dkt start) (end_tuple (mkc below) (length below))) cbs) below' croot
                        (dlayer (S n) (p ++ [ks (sl_key s)]) (pb ++ bytes_of_slice (ks (sl_key s)) 8))) as Hpost.
        { apply IH; clear IH.
          - exact Egc.
          - apply bytes_skipn. exact Hb.
          - intros Eu. rewrite (HSk Eu), <- app_assoc. f_equal.
            rewrite (dkt_usekey start Eu) in Hsk.
            assert (8 < length start)%nat as Hlen.
            { destruct (Nat.le_gt_cases (length start) 8) as [H|H]; [|exact H].
              pose proof (tuple_kl_short start H) as X. rewrite <- Hsk, Hlv in X. clear - X H. lia. }
            rewrite Hsk, (bos8_tuple_long start Hb Hlen). symmetry. apply firstn_skipn.
          - change (end_tuple (mkc below) (length below)) with (endt n).
            destruct cmp0; cbn [andb].
            + rewrite <- Hsk.
              apply (proj2 (dec_link n p pb (sl_key s) HR Hpbl Hws Hlv)).
              apply hitf_start; [exact Hws|exact Hlv|apply endt_wf|].
              rewrite Hsk. apply (start_dlt n p pb start HR Hpbl Hb HSk).
            + apply RI_false_ext. exact HR.
          - unfold lvl in *. clear - Hfuel Hdepth. lia. }
        clear IH. destruct Hpost as [[_ Hemp]|(news & Hnn & Ectx & Hsn & Hres)].
        { exfalso. destruct (wl_parent _ _ _ W _ _ croot Egc) as [Hcne _]. contradiction. }
        assert (dcent n p pb s = dlayer (S n) (p ++ [ks (sl_key s)]) (pb ++ bytes_of_slice (ks (sl_key s)) 8)) as Edc
            by (apply dcent_link; assumption).
        assert (rems below' = after below e ++ rems below) as Erb by (unfold below'; apply rems_snoc).
        right. exists (e :: news). split; [discriminate|].
        assert (below ++ e :: news = below' ++ news) as Eb by (unfold below'; rewrite <- app_assoc; reflexivity).
        rewrite Eb. split; [exact Ectx|]. split; [exact Hsn|].
        rewrite Elayer, Edc, Erb, Eafter in *.
        destruct Hres as [[E1 E2]|(E1 & kv & E2 & E3 & E4 & E5)].
        * left. split; [exact E1|]. rewrite E2, app_assoc. reflexivity.
        * right. split; [exact E1|]. exists kv. split; [exact E2|]. split; [exact E3|]. split; [exact E4|].
          rewrite E5, app_assoc. reflexivity.
    - (* case 3: the start key is not there *)
      right. exists [e]. split; [discriminate|]. split; [destruct one_point; reflexivity|]. split; [exact Hs1|].
      left. split; [destruct one_point; reflexivity|]. rewrite rems_snoc, Eafter.
      rewrite (layer_ins_absent n p pb root start Eg HSk Hb); [reflexivity|]. apply HN. reflexivity.
  Qed.

  (** *** open + iterate to the end *)
  Lemma sinv_length st : sinv st -> st <> [] -> (length st <= length ls)%nat.
  Proof.
    intros Hs Hne. destruct (exists_last Hne) as (below & top & ->). apply sinv_snoc in Hs.
    destruct Hs as ((root & _ & _ & _ & Eg & _) & _ & _). pose proof (depth_lt below root Eg).
    rewrite app_length. cbn [length]. lia.
  Qed.

  Definition ALL : list (key * value) := dl (clayer (S (length ls)) ls [] []).

  Lemma ALL_dlayer : dlayer 0 [] [] = ALL.
  Proof. unfold dlayer, ALL, lvl. rewrite Nat.sub_0_r. reflexivity. Qed.

  Lemma RI_root : RI 0 [] [] true.
  Proof.
    cbn [RI]. destruct ep eqn:Ee.
    - right. split; [discriminate|]. exists K. split; [reflexivity|left; reflexivity].
    - right. split; [discriminate|]. exists K. split; [reflexivity|left; reflexivity].
    - left. split; [|split; [reflexivity|constructor]].
      destruct rtl eqn:Er; [|reflexivity]. exfalso. exact (Hep eq_refl eq_refl).
  Qed.

  Lemma open_spec start one_point :
    bytes start -> (usekey = true -> Sk = start) ->
    let o := ifindfirst true (S (length ls)) ls (mkc []) start sp one_point true [] in
    out_ok (match io_status o with
            | IS_CONT => inext true (S (length ls)) big ls (io_ctx o) (io_cbs o)
            | _ => o
            end) (filter (fun kv => ins (fst kv)) ALL).
  Proof.
    intros Hb HSk. cbv zeta.
    destruct (layer_get ls []) as [root|] eqn:Eg; [|exfalso; exact (wl_exc _ _ _ W Eg)].
    pose proof (ifindfirst_spec (S (length ls)) [] start one_point true [] root I (Forall_nil _) Eg Hb HSk RI_root) as Hpost.
    specialize (Hpost ltac:(unfold lvl; cbn [length]; lia)).
    cbn [length stack_prefix full_key map flat_map] in Hpost. rewrite ALL_dlayer in Hpost.
    set (o := ifindfirst true (S (length ls)) ls (mkc []) start sp one_point true []) in *.
    destruct Hpost as [[Est Hemp]|(news & Hnn & Ectx & Hsn & Hres)].
    - rewrite Est. assert (ALL = []) as ->; [|exact Est].
      unfold ALL. rewrite clayer_S, Eg, Hemp. cbn [flat_map]. apply (dl_nil rtl).
    - cbn [app] in *. change (rems []) with (@nil (key * value)) in Hres. rewrite !app_nil_r in Hres.
      destruct Hres as [[Est Er]|(Est & kv & Ev & Efk & Hin & Er)]; rewrite Est.
      + rewrite Ectx, <- Er. apply inext_spec; [exact Hsn|exact Hnn|].
        pose proof (sinv_length news Hsn Hnn). lia.
      + rewrite <- Er. cbn [out_ok]. right. split; [exact Est|]. split; [exact Ev|]. split; [exact Hin|].
        exists news. repeat split; assumption.
  Qed.

  Variable tr : tree.
  Hypothesis Htr : t_layers tr = ls.

  Lemma collect_spec : forall R o acc cbs fuel,
    out_ok o R -> (length R < fuel)%nat ->
    exists cbs', iscan_collect true fuel tr o acc cbs =
                 Some (acc ++ filter (fun kv => inr (fst kv)) R, cbs').
  Proof.
    induction R as [|kv rest IH]; intros o acc cbs fuel Ho Hfuel; (destruct fuel as [|f]; [lia|]); cbn [iscan_collect].
    - cbn [out_ok] in Ho. rewrite Ho. cbn [filter]. rewrite app_nil_r. eexists. reflexivity.
    - cbn [out_ok] in Ho. destruct Ho as [[Est Hdead]|(Est & Ev & Hin & st' & Ectx & Efk & Hs' & Hne' & Er)]; rewrite Est.
      + rewrite (filter_none (fun kv0 => inr (fst kv0))) by exact Hdead. rewrite app_nil_r. eexists. reflexivity.
      + rewrite Ev, Ectx. cbn [mkc ic_stack]. rewrite Efk. cbn [filter]. rewrite Hin.
        unfold iscan_next_gen. rewrite Htr. fold big. fold (mkc st').
        destruct (IH (inext true (S (length ls)) big ls (mkc st') []) (acc ++ [(fst kv, snd kv)])
                     (cbs ++ io_cbs o) f) as (cbs' & E).
        * rewrite <- Er. apply inext_spec; [exact Hs'|exact Hne'|]. pose proof (sinv_length st' Hs' Hne'). lia.
        * cbn [length] in Hfuel. lia.
        * exists cbs'. rewrite E. rewrite <- app_assoc. cbn [app]. destruct kv; reflexivity.
  Qed.

  Lemma ALL_length : (length ALL <= layers_entries ls)%nat.
  Proof. unfold ALL. rewrite (dl_length rtl). apply (clayer_count ctr ls W). Qed.

  Lemma filter_length_le {A} (P : A -> bool) l : (length (filter P l) <= length l)%nat.
  Proof. induction l as [|a l IH]; [reflexivity|]. cbn [filter]. destruct (P a); cbn [length]; lia. Qed.

  Theorem cursor_all start one_point :
    bytes start -> (usekey = true -> Sk = start) ->
    let o := ifindfirst true (S (length ls)) ls (mkc []) start sp one_point true [] in
    exists cbs',
      iscan_collect true (layers_entries ls + 4) tr
        (match io_status o with
         | IS_CONT => inext true (S (length ls)) big ls (io_ctx o) (io_cbs o)
         | _ => o
         end) [] [] =
      Some (filter (fun kv => inr (fst kv)) (filter (fun kv => ins (fst kv)) ALL), cbs').
  Proof.
    intros Hb HSk. cbv zeta.
    destruct (collect_spec _ _ [] [] (layers_entries ls + 4) (open_spec start one_point Hb HSk)) as (cbs' & E).
    - pose proof (filter_length_le (fun kv => ins (fst kv)) ALL). pose proof ALL_length. lia.
    - exists cbs'. exact E.
  Qed.
End Cursor.

(** ** 8. the public cursor *)

(** the one fact about reachable stores that [WF_store] does not record and the cursor needs: a
    border flagged deleted-and-root only occurs in the empty store (the descent of
    [iscan_findfirst] stops at such a border in EVERY layer, not only in layer 0) *)
Definition iscan_live (tr : tree) : Prop :=
  forall p root lf, layer_get (t_layers tr) p = Some root -> In lf (bt_leaves root) ->
    get_deleted (lf_ver lf) && get_root (lf_ver lf) = true -> bt_elems root = [].

Lemma filter_filter {A} (f g : A -> bool) l : filter f (filter g l) = filter (fun x => g x && f x) l.
Proof.
  induction l as [|a l IH]; [reflexivity|]. cbn [filter]. destruct (g a); cbn [filter andb]; [|exact IH].
  destruct (f a); [rewrite IH; reflexivity|exact IH].
Qed.

Lemma spec_iscan_list_nil a : spec_iscan_list [] a = [].
Proof. unfold spec_iscan_list. cbn [filter rev]. destruct (ia_rtl a); reflexivity. Qed.

Theorem iscan_refines_all_partial : forall ctr tr a,
  WF_store ctr tr -> iscan_live tr -> bytes (ia_l a) -> bytes (ia_r a) ->
  exists st kvs cbs, iscan_all tr a = Some (st, kvs, cbs) /\
    match iscan_validate a with
    | Some s => st = s /\ kvs = []
    | None => st = St_OK /\ map (fun kv => (fst kv, abs_value (snd kv))) kvs = spec_iscan_list (abs_tree tr) a
    end.
Proof.
  intros ctr tr a Wst Hlive Hbl Hbr. unfold iscan_all, iscan_all_gen.
  destruct (iscan_validate a) as [s|] eqn:V.
  { exists s, [], []. split; [reflexivity|split; reflexivity]. }
  destruct (iscan_validate_none a V) as (V1 & V2 & V3).
  set (l := match ia_le a with EP_INF => [] | _ => ia_l a end) in *.
  set (le := match ia_le a with EP_INF => EP_INCL | e => e end).
  assert (bytes l) as Hl by (unfold l; destruct (ia_le a); try exact Hbl; constructor).
  assert (le <> EP_INF) as Hle by (unfold le; destruct (ia_le a); discriminate).
  assert (forall k, in_left l le k = in_left l (ia_le a) k) as Hleft.
  { intros k. unfold l, le. destruct (ia_le a); try reflexivity. cbn [in_left]. rewrite lex_lt_nil_r. reflexivity. }
  unfold iscan_open_gen. fold l. fold le.
  unfold WF_store in Wst. destruct (t_null tr) eqn:Hnull.
  { (* the null storage *)
    destruct (layers_entries (t_layers tr) + 4)%nat eqn:Ef; [lia|]. cbn [iscan_collect io_status].
    eexists St_OK, [], _. split; [reflexivity|]. split; [reflexivity|].
    unfold abs_tree. rewrite Hnull. symmetry. apply spec_iscan_list_nil. }
  set (ls := t_layers tr) in *. set (rtl := ia_rtl a).
  set (K := if rtl then l else ia_r a). set (ep := if rtl then le else ia_re a).
  set (start := if rtl then ia_r a else l). set (sp := if rtl then ia_re a else le).
  assert (negb (negb rtl && ep_eqb sp EP_INF) = true) as ->.
  { unfold sp. destruct rtl; [reflexivity|]. destruct le; try reflexivity. contradiction. }
  assert (bytes K) as HK by (unfold K; destruct rtl; assumption).
  assert (bytes start) as Hst by (unfold start; destruct rtl; assumption).
  match goal with |- context [ifindfirst _ _ _ _ _ _ ?op _ _] => set (one_point := op) end.
  destruct (cursor_all ctr ls Wst rtl K ep HK) with (Sk := start) (sp := sp) (tr := tr) (start := start)
    (one_point := one_point) as (cbs' & E).
  - intros Er. unfold ep. rewrite Er. exact Hle.
  - intros Er. unfold sp. rewrite Er. exact Hle.
  - intros Hep Hu. unfold K, start, ep, sp, usekey in *. destruct rtl.
    + apply V1. intros X. rewrite X in Hu. discriminate.
    + apply V1. exact Hep.
  - intros Hsp. unfold inr, K, ep, start, sp in *. destruct rtl.
    + rewrite Hleft. apply V3. exact Hsp.
    + apply V2. unfold le in Hsp. intros X. rewrite X in Hsp. discriminate.
  - exact Hlive.
  - reflexivity.
  - exact Hst.
  - reflexivity.
  - cbv zeta in E. unfold big in E. change (mkc rtl K ep []) with
      {| ic_end_key := K; ic_end_ep := ep; ic_rtl := rtl; ic_stack := [] |} in E.
    rewrite E. eexists St_OK, _, cbs'. split; [reflexivity|]. split; [reflexivity|].
    change (fun kv : key * value => (fst kv, abs_value (snd kv))) with abskv.
    assert (abs_tree tr = map abskv (clayer (S (length ls)) ls [] [])) as ->.
    { unfold abs_tree. rewrite Hnull. apply abs_clayer. }
    set (cl := clayer (S (length ls)) ls [] []).
    set (Q := fun k : key => in_left l (ia_le a) k && in_right (ia_r a) (ia_re a) k).
    assert (filter (fun kv => inr rtl K ep (fst kv)) (filter (fun kv => ins rtl start sp (fst kv)) (ALL ls rtl)) =
            dl rtl (filter (fun kv => Q (fst kv)) cl)) as ->.
    { unfold ALL. fold cl. unfold inr, ins, K, ep, start, sp, dl, Q. destruct rtl.
      - rewrite !filter_rev, filter_filter. f_equal. apply filter_ext. intros kv. rewrite Hleft. apply andb_comm.
      - rewrite filter_filter. apply filter_ext. intros kv. rewrite Hleft. reflexivity. }
    unfold spec_iscan_list. fold l. fold rtl.
    change (fun kv : key * aval => in_left l (ia_le a) (fst kv) && in_right (ia_r a) (ia_re a) (fst kv))
      with (fun kv : key * aval => Q (fst kv)).
    rewrite (filter_map_abskv Q). unfold dl. destruct rtl; [apply map_rev|reflexivity].
Qed.

(** ** 9. [scan_inv] alone is not enough: a well-formed store that satisfies [scan_inv] (but is not
    reachable by puts and removes) in which a border of layer 1 is flagged deleted-and-root;
    the cursor stops there, the specification does not *)
Module IScanCounterexample.
  Import ScanCounterexamples.
  Definition X : N := 506381209866536711.        (* the slice 07 07 07 07 07 07 07 07 *)
  Definition eL : slot_t := mk (mk9 X) LLink.
  Lemma okL : entry_ok eL. Proof. split; reflexivity. Qed.
  Definition lfL : leaf := single_leaf 11 (mk9 X) LLink.
  Definition rootL : bt := BLeaf lfL.
  Definition subD : bt := bt_set_ver (BLeaf lfC) (set_deleted (lf_ver lfC) true).
  Definition cx : tree := {| t_layers := [([], rootL); ([X], subD)]; t_null := false |}.
  (** [07 x 8; 03] <= k, left to right *)
  Definition from_inside : iscan_args :=
    {| ia_l := [7;7;7;7;7;7;7;7;3]; ia_le := EP_INCL; ia_r := []; ia_re := EP_INF; ia_rtl := false;
       ia_lnull := false; ia_rnull := false |}.

  Lemma cx_wf : WF_store 20 cx.
  Proof.
    destruct (single_leaf_WF_layer 11 (mk9 X) LLink okL) as (HwL & HelL & HidL).
    fold lfL in HwL, HelL, HidL. fold rootL in HwL, HelL, HidL.
    destruct (single_leaf_WF_layer 12 kC (LValue (val 3)) okC) as ([HwC HndC] & HelC & HidC).
    fold lfC in HwC, HndC, HelC, HidC.
    assert (WF_layer subD) as HwD.
    { split; [apply bt_set_ver_WF; exact HwC|]. unfold subD. rewrite bt_set_ver_ids. exact HndC. }
    assert (bt_elems subD = [eC]) as HelD by (unfold subD; rewrite bt_set_ver_elems; exact HelC).
    assert (bt_ids subD = [12]) as HidD by (unfold subD; rewrite bt_set_ver_ids; exact HidC).
    assert (forall p r, layer_get [([], rootL); ([X], subD)] p = Some r ->
              (p = [] /\ r = rootL) \/ (p = [X] /\ r = subD)) as G.
    { intros p r. cbn [layer_get].
      destruct (prefix_eqb_spec [] p) as [<-|N1].
      - intros H. injection H as <-. left. split; reflexivity.
      - destruct (prefix_eqb_spec [X] p) as [<-|N2]; [|discriminate].
        intros H. injection H as <-. right. split; reflexivity. }
    unfold WF_store, cx. cbn [t_null t_layers]. constructor.
    - cbn [map fst]. constructor; [intros [H|[]]; discriminate|]. constructor; [intros []|constructor].
    - intros p r H. destruct (G p r H) as [[_ ->]|[_ ->]]; assumption.
    - intros p r i H Hi. destruct (G p r H) as [[_ ->]|[_ ->]].
      + rewrite HidL in Hi. destruct Hi as [<-|[]]. lia.
      + rewrite HidD in Hi. destruct Hi as [<-|[]]. lia.
    - intros p q rp rq i H1 H2 I1 I2.
      destruct (G p rp H1) as [[-> ->]|[-> ->]], (G q rq H2) as [[-> ->]|[-> ->]]; try reflexivity; exfalso.
      + rewrite HidL in I1. rewrite HidD in I2. destruct I2 as [<-|[]]. destruct I1 as [H|[]]. discriminate.
      + rewrite HidL in I2. rewrite HidD in I1. destruct I1 as [<-|[]]. destruct I2 as [H|[]]. discriminate.
    - intros p r x H Hin _. destruct (G p r H) as [[-> ->]|[-> ->]].
      + rewrite HelL in Hin. destruct Hin as [Hin|[]].
        unfold eL, mk, mk9 in Hin. injection Hin as <-. vm_compute. discriminate.
      + rewrite HelD in Hin. destruct Hin as [Hin|[]]. discriminate Hin.
    - intros p x r H. destruct (G _ r H) as [[E _]|[E ->]].
      + destruct p; discriminate.
      + destruct p as [|y p]; [|destruct p; discriminate].
        cbn in E. injection E as ->. split; [rewrite HelD; discriminate|].
        exists rootL. split; [reflexivity|]. rewrite HelL. left. reflexivity.
    - intros p x r s H Hin. destruct (G _ r H) as [[E _]|[E ->]].
      + destruct p; discriminate.
      + rewrite HelD in Hin. destruct Hin as [<-|[]]. cbn. lia.
    - cbn. discriminate.
  Qed.

  Lemma cx_scan_inv : scan_inv cx.
  Proof.
    split.
    - unfold scan_seps, cx. cbn [t_layers]. constructor; [apply seps_good_leaf|].
      constructor; [|constructor]. unfold subD. cbn [snd bt_set_ver]. apply seps_good_leaf.
    - intros root lf Eg Hin Hd. cbn in Eg. injection Eg as <-. cbn [bt_leaves rootL] in Hin.
      destruct Hin as [<-|[]]. vm_compute in Hd. discriminate Hd.
  Qed.

  Theorem iscan_refines_needs_iscan_live :
    exists ctr tr a,
      WF_store ctr tr /\ scan_inv tr /\ bytes (ia_l a) /\ bytes (ia_r a) /\ iscan_validate a = None /\
      exists cbs, iscan_all tr a = Some (St_OK, [], cbs) /\
                  spec_iscan_list (abs_tree tr) a = [([7;7;7;7;7;7;7;7;3], abs_value (val 3))].
  Proof.
    exists 20, cx, from_inside. split; [exact cx_wf|]. split; [exact cx_scan_inv|].
    split; [repeat constructor|]. split; [constructor|]. split; [reflexivity|].
    eexists. split; vm_compute; reflexivity.
  Qed.

  (** hence the refinement cannot be proved from [WF_store] and [scan_inv] alone *)
  Theorem iscan_refines_all_false_from_scan_inv :
    ~ (forall ctr tr a,
         WF_store ctr tr -> scan_inv tr -> bytes (ia_l a) -> bytes (ia_r a) ->
         exists st kvs cbs, iscan_all tr a = Some (st, kvs, cbs) /\
           match iscan_validate a with
           | Some s => st = s /\ kvs = []
           | None => st = St_OK /\
                     map (fun kv => (fst kv, abs_value (snd kv))) kvs = spec_iscan_list (abs_tree tr) a
           end).
  Proof.
    intros H. destruct iscan_refines_needs_iscan_live as (ctr & tr & a & W & Hi & Hl & Hr & V & cbs & E & Es).
    destruct (H ctr tr a W Hi Hl Hr) as (st & kvs & cbs' & E' & Hres).
    rewrite V in Hres. rewrite E in E'. injection E' as <- <- <-. destruct Hres as [_ Hres].
    rewrite Es in Hres. discriminate Hres.
  Qed.
End IScanCounterexample.

(** ** 10. [iscan_live] holds on every store reached by puts and removes: no border is flagged
    deleted except the border of the empty store ([live_all]), an invariant *)
Definition live_all (ls : layers_t) : Prop :=
  forall p root lf, In (p, root) ls -> In lf (bt_leaves root) -> get_deleted (lf_ver lf) = true ->
    bt_elems root = [].

Lemma live_all_iscan_live tr : live_all (t_layers tr) -> iscan_live tr.
Proof.
  intros H p root lf Eg Hin Hd. apply andb_true_iff in Hd. destruct Hd as [Hd _].
  exact (H p root lf (layer_get_in _ _ _ Eg) Hin Hd).
Qed.

Lemma live_all_live_ok ls : live_all ls -> live_ok ls.
Proof. intros H root lf Eg. exact (H [] root lf (layer_get_in _ _ _ Eg)). Qed.

Lemma in_layer_set ls p r' q r : In (q, r) (layer_set ls p r') -> r = r' \/ In (q, r) ls.
Proof.
  induction ls as [|[q0 u] ls IH]; cbn [layer_set].
  - intros [H|[]]. injection H as _ <-. left. reflexivity.
  - destruct (prefix_eqb q0 p).
    + intros [H|H]; [injection H as _ <-; left; reflexivity|right; right; exact H].
    + intros [H|H]; [right; left; exact H|]. destruct (IH H) as [X|X]; [left; exact X|right; right; exact X].
Qed.

Lemma in_layer_del ls p q r : In (q, r) (layer_del ls p) -> In (q, r) ls.
Proof.
  induction ls as [|[q0 u] ls IH]; cbn [layer_del]; [intros []|].
  destruct (prefix_eqb q0 p); [intros H; right; exact H|].
  intros [H|H]; [left; exact H|right; apply IH; exact H].
Qed.

Lemma live_all_set ls p r' :
  live_all ls ->
  (forall lf, In lf (bt_leaves r') -> get_deleted (lf_ver lf) = true -> bt_elems r' = []) ->
  live_all (layer_set ls p r').
Proof.
  intros Hs Hr q root lf Hin Hlf Hd. apply in_layer_set in Hin. destruct Hin as [->|Hin].
  - exact (Hr lf Hlf Hd).
  - exact (Hs q root lf Hin Hlf Hd).
Qed.

Lemma live_all_del ls p : live_all ls -> live_all (layer_del ls p).
Proof. intros Hs q root lf Hin. apply in_layer_del in Hin. exact (Hs q root lf Hin). Qed.

Lemma single_leaf_not_deleted id k lv lf :
  In lf (bt_leaves (BLeaf (single_leaf id k lv))) -> get_deleted (lf_ver lf) = true -> False.
Proof.
  cbn [bt_leaves]. intros [<-|[]] Hd. unfold single_leaf in Hd. rewrite leaf_insert_at_ver in Hd.
  cbn [lf_ver] in Hd. vm_compute in Hd. discriminate Hd.
Qed.

Lemma new_chain_live_all v : forall ts p ctr ls, live_all ls -> live_all (fst (new_chain p ts v ctr ls)).
Proof.
  induction ts as [|t rest IH]; intros p ctr ls Hs; [exact Hs|]. cbn [new_chain].
  destruct rest as [|t2 r].
  - cbn [fst]. apply live_all_set; [exact Hs|]. intros lf Hlf Hd. exfalso. exact (single_leaf_not_deleted _ _ _ lf Hlf Hd).
  - apply IH. apply live_all_set; [exact Hs|]. intros lf Hlf Hd. exfalso. exact (single_leaf_not_deleted _ _ _ lf Hlf Hd).
Qed.

Lemma put_walk_live_all v unique : forall ts p ctr ls ls' o ctr',
  WFL ctr ls None -> vp ts -> layer_get ls p <> None ->
  put_walk ts p ls v unique ctr = Some (ls', o, ctr') -> live_all ls -> live_all ls'.
Proof.
  induction ts as [|t rest IH]; intros p ctr ls ls' o ctr' W V Hp E Hs; [contradiction|].
  cbn [vp] in V. destruct V as [Hw V].
  pose proof (wl_layer _ _ _ W) as Hwf.
  destruct (layer_get ls p) as [root|] eqn:Eg; [|contradiction]. clear Hp.
  pose proof (layer_get_in _ _ _ Eg) as Hinl.
  destruct (walk_step ctr ls None p root t W Eg Hw) as (l & Ef & Hl).
  cbn [put_walk] in E. rewrite Eg, Ef in E.
  destruct (leaf_lookup l t) as [[[rk slot] s]|] eqn:El.
  - destruct Hl as (Hin & Hst & He & Hoks). destruct rest as [|t2 r].
    + destruct unique.
      * injection E as <- _ _. exact Hs.
      * injection E as <- _ _. apply live_all_set; [exact Hs|]. intros lf' Hin' Hd. exfalso.
        apply leaf_versions_in in Hin'. rewrite c12_overwrite_silent in Hin'.
        apply leaf_versions_inv in Hin'. destruct Hin' as (lf & Hlf & Ev).
        rewrite <- Ev in Hd. pose proof (Hs p root lf Hinl Hlf Hd) as X. rewrite X in Hin. destruct Hin.
    + destruct V as [H9 V]. pose proof Hoks as [_ Hok]. rewrite Hst in Hok.
      destruct (sl_lv s) as [|ov|] eqn:Elv; [contradiction|lia|].
      assert (layer_get ls (p ++ [ks t]) <> None) as Hsub.
      { apply (wl_link _ _ _ W p root (ks t) Eg); [|discriminate].
        rewrite (mk9_ks t H9), <- Hst, <- Elv, mk_eta. exact Hin. }
      exact (IH (p ++ [ks t]) ctr ls ls' o ctr' W V Hsub E Hs).
  - destruct Hl as [He Hnin].
    set (lv := match rest with [] => LValue v | _ :: _ => LLink end) in *.
    assert (entry_ok {| sl_key := t; sl_lv := lv |}) as Hokn.
    { split; [exact Hw|]. unfold lv. cbn [sl_lv sl_key]. destruct rest; [exact V|apply V]. }
    destruct (layer_put root t lv ctr) as [[[root' info] ctr1]|] eqn:Eput; [|discriminate].
    destruct (new_chain (p ++ [ks t]) rest v ctr1 (layer_set ls p root')) as [ls2 ctr2] eqn:Enc.
    injection E as <- _ _.
    change ls2 with (fst (ls2, ctr2)). rewrite <- Enc. apply new_chain_live_all.
    apply live_all_set; [exact Hs|]. intros lf' Hin' Hd. exfalso.
    destruct (layer_put_leaves root t lv ctr root' info ctr1 (Hwf p root Eg) Hw Hnin Hokn Eput)
      as (lm & A & B & r0 & _ & HL & ELP & HR).
    assert (forall lf, In lf (bt_leaves root) -> get_deleted (lf_ver lf) = true ->
              root = BLeaf lf /\ leaf_cnk lf = 0) as Hdel.
    { intros lf Hlf Hdl. pose proof (Hs p root lf Hinl Hlf Hdl) as X.
      destruct (empty_root_leaf None None root (proj1 (Hwf p root Eg)) X) as [l0 ->].
      cbn [bt_leaves] in Hlf. destruct Hlf as [->|[]]. split; [reflexivity|].
      cbn [bt_elems] in X. pose proof (leaf_entries_length lf) as Y. rewrite X in Y. cbn [length] in Y. lia. }
    rewrite HR in Hin'. apply in_app_or in Hin'. destruct Hin' as [Hin'|Hin'];
      [|apply in_app_or in Hin'; destruct Hin' as [Hin'|Hin']].
    + destruct (Hdel lf') as [-> _]; [rewrite HL; apply in_or_app; left; exact Hin'|exact Hd|].
      cbn [bt_leaves] in HL. destruct A as [|a A]; [destruct Hin'|].
      destruct A; discriminate HL.
    + rewrite (leaf_put_deleted lm t lv ctr r0 info ELP lf' Hin') in Hd.
      destruct (N.eqb_spec (leaf_cnk lm) 0) as [E0|N0]; [discriminate|].
      destruct (Hdel lm) as [_ X]; [rewrite HL; apply in_or_app; right; left; reflexivity|exact Hd|].
      contradiction.
    + destruct (Hdel lf') as [-> _]; [rewrite HL; apply in_or_app; right; right; exact Hin'|exact Hd|].
      cbn [bt_leaves] in HL. destruct A as [|a A].
      * cbn [app] in HL. injection HL as _ <-. destruct Hin'.
      * destruct A; discriminate HL.
Qed.

Theorem put_live_all ctr tr k v unique tr' po ctr' :
  WF_store ctr tr -> bytes k -> put tr k v unique ctr = Some (tr', po, ctr') ->
  live_all (t_layers tr) -> live_all (t_layers tr').
Proof.
  unfold WF_store, put. intros W Hb E Hs. destruct (t_null tr).
  - destruct (new_chain [] (path_of_key k) v ctr []) as [ls c] eqn:Enc. injection E as <- _ _.
    cbn [t_layers]. change ls with (fst (ls, c)). rewrite <- Enc. apply new_chain_live_all.
    intros p root lf [].
  - destruct (put_walk (path_of_key k) [] (t_layers tr) v unique ctr) as [[[ls o] c]|] eqn:Ew; [|discriminate].
    injection E as <- _ _. cbn [t_layers].
    eapply put_walk_live_all; [exact W|apply (path_vp k Hb)|exact (wl_exc _ _ _ W)|exact Ew|exact Hs].
Qed.

Lemma layer_remove_live_all ls p k ls' gone ret :
  layer_remove ls p k = Some (ls', gone, ret) -> live_all ls -> live_all ls'.
Proof.
  unfold layer_remove. intros E Hs.
  destruct (layer_get ls p) as [root|] eqn:Eg; [|discriminate].
  pose proof (layer_get_in _ _ _ Eg) as Hinl.
  destruct (bt_delete (S (bt_height root)) root k) as [[[root'|] ret0]|] eqn:Ed; [| |discriminate].
  - injection E as <- _ _. apply live_all_set; [exact Hs|]. intros lf2 Hin2 Hd. exfalso.
    assert (exists lf1, In lf1 (bt_leaves root') /\ get_deleted (lf_ver lf1) = true) as (lf1 & Hin1 & Hd1).
    { destruct (N.eqb (bt_id root') (bt_id root)); [exists lf2; split; assumption|].
      destruct (set_root_flag_deleted root' true lf2 Hin2) as (lf & Hlf & Ev).
      exists lf. split; [exact Hlf|]. rewrite <- Ev. exact Hd. }
    apply leaf_versions_in in Hin1.
    apply (c12_delete_keeps_versions k _ root root' ret0 Ed) in Hin1.
    apply leaf_versions_inv in Hin1. destruct Hin1 as (lf0 & Hlf0 & Ev0).
    rewrite <- Ev0 in Hd1.
    exact (bt_delete_nonempty k _ root _ Ed (Hs p root lf0 Hinl Hlf0 Hd1)).
  - destruct p as [|x p].
    + destruct root as [l|]; [|discriminate].
      destruct (leaf_lookup l k) as [[[rank slot] s]|] eqn:El; [|discriminate].
      injection E as <- _ _. apply live_all_set; [exact Hs|]. intros _ _ _.
      cbn [bt_delete] in Ed. rewrite El in Ed. cbv zeta in Ed.
      destruct (N.eqb_spec (leaf_cnk l) 1) as [E1|N1]; [|discriminate].
      cbn [bt_elems].
      match goal with |- leaf_entries ?x = [] => pose proof (leaf_entries_length x) as Y; set (lx := x) in * end.
      assert (leaf_cnk lx = 0) as C0.
      { unfold lx, leaf_cnk, leaf_with, leaf_delete. cbn [lf_perm].
        unfold leaf_cnk in E1. rewrite delete_rank_cnk by lia. lia. }
      rewrite C0 in Y. destruct (leaf_entries lx); [reflexivity|discriminate Y].
    + injection E as <- _ _. apply live_all_del. exact Hs.
Qed.

Lemma cascade_live_all : forall fuel ls p ret ls' ret',
  cascade fuel ls p ret = Some (ls', ret') -> live_all ls -> live_all ls'.
Proof.
  induction fuel as [|f IH]; intros ls p ret ls' ret' E Hs; [discriminate|].
  cbn [cascade] in E. destruct (rev p) as [|s q]; [injection E as <- _; exact Hs|].
  destruct (layer_remove ls (remove_last p) {| ks := s; kl := 9 |}) as [[[ls1 gone] ret1]|] eqn:El; [|discriminate].
  pose proof (layer_remove_live_all _ _ _ _ _ _ El Hs) as Hs1.
  destruct gone; [eapply IH; eassumption|]. injection E as <- _. exact Hs1.
Qed.

Lemma remove_walk_live_all : forall ts p ls ls' o,
  remove_walk ts p ls = Some (ls', o) -> live_all ls -> live_all ls'.
Proof.
  induction ts as [|t rest IH]; intros p ls ls' o E Hs; [discriminate|].
  cbn [remove_walk] in E.
  destruct (layer_get ls p) as [root|]; [|discriminate].
  destruct (find_leaf root t) as [l|]; [|discriminate].
  destruct (leaf_lookup l t) as [[[rk slot] s]|]; [|injection E as <- _; exact Hs].
  destruct rest as [|t2 r]; [|eapply IH; eassumption].
  destruct (layer_remove ls p t) as [[[ls1 gone] ret1]|] eqn:El; [|discriminate].
  pose proof (layer_remove_live_all _ _ _ _ _ _ El Hs) as Hs1.
  destruct gone.
  - destruct (cascade (S (length p)) ls1 p ret1) as [[ls2 ret2]|] eqn:Ec; [|discriminate].
    injection E as <- _. eapply cascade_live_all; eassumption.
  - injection E as <- _. exact Hs1.
Qed.

Theorem remove_live_all tr k tr' ro :
  remove tr k = Some (tr', ro) -> live_all (t_layers tr) -> live_all (t_layers tr').
Proof.
  unfold remove. intros E Hs. destruct (t_null tr); [injection E as <- _; exact Hs|].
  destruct (remove_walk (path_of_key k) [] (t_layers tr)) as [[ls o]|] eqn:Ew; [|discriminate].
  injection E as <- _. cbn [t_layers]. eapply remove_walk_live_all; eassumption.
Qed.

Theorem live_all_null : live_all (t_layers null_tree).
Proof. intros p root lf []. Qed.

Theorem live_all_empty id : live_all (t_layers (empty_tree id)).
Proof.
  intros p root lf [H|[]] Hin Hd. injection H as _ <-. cbn [bt_leaves] in Hin.
  destruct Hin as [<-|[]]. cbn [lf_ver] in Hd. vm_compute in Hd. discriminate Hd.
Qed.

(** the invariant of the cursor, and the refinement on every store that satisfies it *)
Definition iscan_inv (tr : tree) : Prop := live_all (t_layers tr).

Theorem iscan_inv_null : iscan_inv null_tree.
Proof. exact live_all_null. Qed.
Theorem iscan_inv_empty id : iscan_inv (empty_tree id).
Proof. exact (live_all_empty id). Qed.
Theorem put_iscan_inv ctr tr k v unique tr' po ctr' :
  WF_store ctr tr -> bytes k -> put tr k v unique ctr = Some (tr', po, ctr') -> iscan_inv tr -> iscan_inv tr'.
Proof. exact (put_live_all ctr tr k v unique tr' po ctr'). Qed.
Theorem remove_iscan_inv tr k tr' ro : remove tr k = Some (tr', ro) -> iscan_inv tr -> iscan_inv tr'.
Proof. exact (remove_live_all tr k tr' ro). Qed.

Theorem iscan_refines_inv : forall ctr tr a,
  WF_store ctr tr -> iscan_inv tr -> bytes (ia_l a) -> bytes (ia_r a) ->
  exists st kvs cbs, iscan_all tr a = Some (st, kvs, cbs) /\
    match iscan_validate a with
    | Some s => st = s /\ kvs = []
    | None => st = St_OK /\ map (fun kv => (fst kv, abs_value (snd kv))) kvs = spec_iscan_list (abs_tree tr) a
    end.
Proof.
  intros ctr tr a W Hi. apply (iscan_refines_all_partial ctr tr a W). apply live_all_iscan_live. exact Hi.
Qed.

(** ** 11. sanity: the hypotheses are satisfiable on the 39-layer store of [ScanExample] (and on
    stores obtained from it by removes), and the theorem describes what the executable model
    computes *)
Module IScanExample.
  Import ScanExample.

  Lemma puts_iinv : forall ks tr ctr, WF_store ctr tr -> iscan_inv tr -> Forall bytes ks ->
    exists tr' ctr', StoreExample.puts tr ctr ks = Some (tr', ctr') /\ WF_store ctr' tr' /\ iscan_inv tr'.
  Proof.
    induction ks as [|k r IH]; intros tr ctr W Hi Hb; [exists tr, ctr; split; [reflexivity|split; assumption]|].
    apply Forall_cons_iff in Hb. destruct Hb as [Hk Hr].
    destruct (put_refines ctr tr k (StoreExample.val (N.of_nat (length k))) false W Hk) as (tr' & po & c' & E & W' & _).
    cbn [StoreExample.puts]. rewrite E. apply IH; [exact W'| |exact Hr].
    exact (put_iscan_inv ctr tr k _ false tr' po c' W Hk E Hi).
  Qed.

  Fixpoint removes (tr : tree) (ks : list key) : option tree :=
    match ks with
    | [] => Some tr
    | k :: r => match remove tr k with Some (tr', _) => removes tr' r | None => None end
    end.

  Lemma removes_iinv : forall ks tr ctr, WF_store ctr tr -> iscan_inv tr -> Forall bytes ks ->
    exists tr', removes tr ks = Some tr' /\ WF_store ctr tr' /\ iscan_inv tr'.
  Proof.
    induction ks as [|k r IH]; intros tr ctr W Hi Hb; [exists tr; split; [reflexivity|split; assumption]|].
    apply Forall_cons_iff in Hb. destruct Hb as [Hk Hr].
    destruct (remove_refines ctr tr k W Hk) as (tr' & ro & E & W' & _).
    cbn [removes]. rewrite E. apply IH; [exact W'| |exact Hr].
    exact (remove_iscan_inv tr k tr' ro E Hi).
  Qed.

  Lemma keys_bytes ks : forallb (fun k => forallb (fun b => b <? 256) k) ks = true -> Forall bytes ks.
  Proof.
    intros A. apply Forall_forall. intros k Hk. apply StoreExample.bytesb_sound.
    rewrite forallb_forall in A. apply A. exact Hk.
  Qed.

  Example ex_iinv : exists ctr, WF_store ctr ex_tree /\ iscan_inv ex_tree.
  Proof.
    destruct (puts_iinv ex_keys (empty_tree 1) 2) as (tr' & c' & E & W & Hi).
    - apply empty_tree_wf. lia.
    - apply iscan_inv_empty.
    - apply keys_bytes. vm_compute. reflexivity.
    - exists c'. unfold ex_tree. rewrite E. split; assumption.
  Qed.

  (** after removes: the layer under 07^8 shrinks, the layer under ff^8 and the five deepest layers
      of the 300-byte key vanish, the empty key goes *)
  Definition gone_keys : list key :=
    [[]; p8 ++ p8 ++ [1]; p8 ++ p8; f8 ++ [3]; repeat 7 300; [7]]
    ++ map (fun i => p8 ++ [N.of_nat i; 2]) (seq 3 14).
  Definition ex_tree2 : tree := match removes ex_tree gone_keys with Some t => t | None => null_tree end.
  (** everything removed: the root border of layer 0 stays, empty and flagged deleted *)
  Definition ex_tree3 : tree := match removes ex_tree ex_keys with Some t => t | None => null_tree end.

  Example ex_shapes :
    (length (t_layers ex_tree2), length (abs_tree ex_tree2), length (t_layers ex_tree3), length (abs_tree ex_tree3),
     t_null ex_tree3) = (32%nat, 31%nat, 1%nat, 0%nat, false).
  Proof. vm_compute. reflexivity. Qed.

  Lemma removed_iinv ks :
    forallb (fun k => forallb (fun b => b <? 256) k) ks = true ->
    exists tr', removes ex_tree ks = Some tr' /\ exists ctr, WF_store ctr tr' /\ iscan_inv tr'.
  Proof.
    intros Hb. destruct ex_iinv as (ctr & W & Hi).
    destruct (removes_iinv ks ex_tree ctr W Hi (keys_bytes ks Hb)) as (tr' & E & W' & Hi').
    exists tr'. split; [exact E|]. exists ctr. split; assumption.
  Qed.

  Example ex2_iinv : exists ctr, WF_store ctr ex_tree2 /\ iscan_inv ex_tree2.
  Proof.
    destruct (removed_iinv gone_keys) as (tr' & E & H); [vm_compute; reflexivity|].
    unfold ex_tree2. rewrite E. exact H.
  Qed.

  Example ex3_iinv : exists ctr, WF_store ctr ex_tree3 /\ iscan_inv ex_tree3.
  Proof.
    destruct (removed_iinv ex_keys) as (tr' & E & H); [vm_compute; reflexivity|].
    unfold ex_tree3. rewrite E. exact H.
  Qed.

  (** the theorem applies to every argument record *)
  Example ex_iapplies a : bytes (ia_l a) -> bytes (ia_r a) ->
    exists st kvs cbs, iscan_all ex_tree a = Some (st, kvs, cbs) /\
      match iscan_validate a with
      | Some s => st = s /\ kvs = []
      | None => st = St_OK /\ map (fun kv => (fst kv, abs_value (snd kv))) kvs = spec_iscan_list (abs_tree ex_tree) a
      end.
  Proof. intros Hl Hr. destruct ex_iinv as (ctr & W & Hi). exact (iscan_refines_inv ctr ex_tree a W Hi Hl Hr). Qed.

  (** and the executable model agrees with the specification (keys and values) on a grid of
      arguments: both directions, all endpoint kinds, endpoints that are stored keys, proper
      prefixes of stored keys, inside next layers, on 8-byte boundaries, longer than 255 bytes *)
  Definition aval_eqb (x y : aval) : bool :=
    Nat.eqb (length (av_bytes x)) (length (av_bytes y)) &&
    forallb (fun pr => fst pr =? snd pr) (combine (av_bytes x) (av_bytes y)) &&
    Bool.eqb (av_inline x) (av_inline y).
  Definition kvl_eqb (a b : list (key * aval)) : bool :=
    Nat.eqb (length a) (length b) &&
    forallb (fun pr => key_eqb (fst (fst pr)) (fst (snd pr)) && aval_eqb (snd (fst pr)) (snd (snd pr))) (combine a b).
  Definition icheck (tr : tree) (a : iscan_args) : bool :=
    match iscan_all tr a with
    | None => false
    | Some (st, kvs, _) =>
      match iscan_validate a with
      | Some s => match kvs, st, s with [], St_ERR_BAD_USAGE, St_ERR_BAD_USAGE => true | _, _, _ => false end
      | None => match st with
                | St_OK => kvl_eqb (map (fun kv => (fst kv, abs_value (snd kv))) kvs) (spec_iscan_list (abs_tree tr) a)
                | _ => false
                end
      end
    end.
  Definition mk_args (ls : list key) (rs : list key) : list iscan_args :=
    flat_map (fun l => flat_map (fun le => flat_map (fun r => flat_map (fun re => flat_map (fun rtl =>
      [{| ia_l := l; ia_le := le; ia_r := r; ia_re := re; ia_rtl := rtl; ia_lnull := false; ia_rnull := false |}])
      [false; true]) eps) rs) eps) ls.
  Definition iex_args : list iscan_args :=
    mk_args [[]; [7;0]; p8; p8 ++ [5]; p8 ++ p8] [p8; p8 ++ p8 ++ [1]; f8 ++ [3]; [10;1]]
    ++ mk_args [repeat 7 256; f8] [repeat 7 300; f8 ++ [4]]
    ++ mk_args [[3;1]] [[3;1]; []].
  Definition iex_args_small : list iscan_args :=
    mk_args [[]; p8 ++ [5]; p8 ++ p8] [p8 ++ p8 ++ [1]; f8 ++ [3]].

  Example iex_args_length : (length iex_args, length iex_args_small) = (468%nat, 108%nat).
  Proof. vm_compute. reflexivity. Qed.
  Example iex_checks : forallb (icheck ex_tree) iex_args = true.
  Proof. vm_cast_no_check (eq_refl true). Qed.
  Example iex_checks2 : forallb (icheck ex_tree2) iex_args_small = true.
  Proof. vm_cast_no_check (eq_refl true). Qed.
  Example iex_checks3 : forallb (icheck ex_tree3) iex_args_small = true.
  Proof. vm_cast_no_check (eq_refl true). Qed.
End IScanExample.

(** ** axiom audit *)
Print Assumptions iscan_validate_spec.
Print Assumptions iscan_refines_all_partial.
Print Assumptions iscan_refines_inv.
Print Assumptions iscan_inv_null.
Print Assumptions iscan_inv_empty.
Print Assumptions put_iscan_inv.
Print Assumptions remove_iscan_inv.
Print Assumptions IScanCounterexample.iscan_refines_needs_iscan_live.
Print Assumptions IScanCounterexample.iscan_refines_all_false_from_scan_inv.
Print Assumptions IScanExample.ex_iinv.
Print Assumptions IScanExample.ex2_iinv.
Print Assumptions IScanExample.ex3_iinv.
Print Assumptions IScanExample.ex_iapplies.
Print Assumptions IScanExample.iex_checks.
Print Assumptions IScanExample.iex_checks2.
Print Assumptions IScanExample.iex_checks3.
