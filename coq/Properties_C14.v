(** * C14 -- the session-slot table: distinct tokens, at most [n] sessions,
    every live session is counted, WARN_MAX_SESSIONS only when the table was
    seen full, quiescent behaviour, slot reuse.  For every capacity [n], any
    number of threads, any interleaving (one shared access per event).
    Property theorems only; each closed by [exact]. *)
From Coq Require Import NArith List PeanoNat.
From Yk Require Import SessionDefs SessionProofs.

(** the inductive invariant holds in every reachable state *)
Theorem C14_invariant : forall n s, reachable n s ->
  (forall i, running s i = true <-> exists t, owns (pc s t) = Some i) /\
  (forall t1 t2 i, owns (pc s t1) = Some i -> owns (pc s t2) = Some i -> t1 = t2) /\
  (forall t i, pc s t = TProbe i \/ pc s t = TCas i \/ owns (pc s t) = Some i -> i < n) /\
  (forall t i, pc s t = THold i \/ pc s t = TLeaving i \/ pc s t = TClaimed i true ->
               begin_ s i <> 0%N) /\
  (forall t i, pc s t = TProbe i \/ pc s t = TCas i -> forall j, j < i -> In j (obs s t)) /\
  (forall t, pc s t = TFull -> forall j, j < n -> In j (obs s t)).
Proof. exact reachable_core. Qed.
Print Assumptions C14_invariant.

(** two threads never hold the same token *)
Theorem C14_distinct_tokens : forall n s t1 t2 i, reachable n s ->
  holds (pc s t1) = Some i -> holds (pc s t2) = Some i -> t1 = t2.
Proof. exact distinct_tokens. Qed.
Print Assumptions C14_distinct_tokens.

(** at most [n] tokens are held at any moment *)
Theorem C14_capacity : forall n s ts, reachable n s ->
  NoDup ts -> (forall t, In t ts -> holds (pc s t) <> None) -> length ts <= n.
Proof. exact capacity. Qed.
Print Assumptions C14_capacity.

(** the same for slot owners (from the successful CAS to the clearing store) *)
Theorem C14_capacity_owners : forall n s ts, reachable n s ->
  NoDup ts -> (forall t, In t ts -> owns (pc s t) <> None) -> length ts <= n.
Proof. exact capacity_owns. Qed.
Print Assumptions C14_capacity_owners.

(** a held token's slot is marked running with a non-zero begin epoch *)
Theorem C14_counted : forall n s t i, reachable n s ->
  holds (pc s t) = Some i -> begin_ s i <> 0%N /\ running s i = true.
Proof. exact counted. Qed.
Print Assumptions C14_counted.

(** a slot enters [obs t] only by [t] really finding it occupied *)
Theorem C14_obs_sound : forall n s e s' t i,
  sstep n s e = Some s' -> In i (obs s' t) ->
  In i (obs s t) \/ (observes e t i = true /\ running s i = true).
Proof. exact obs_sound. Qed.
Print Assumptions C14_obs_sound.

Theorem C14_enter_resets_obs : forall n s t s',
  sstep n s (EnterCall t) = Some s' -> obs s' t = [].
Proof. exact enter_resets_obs. Qed.
Print Assumptions C14_enter_resets_obs.

(** when thread [t] is about to return WARN_MAX_SESSIONS, then for every slot
    [j < n] the trace contains an event [e] of [t] (a load returning true or a
    failed CAS) executed in a state where slot [j] was occupied, and [t] has
    not begun another enter since *)
Theorem C14_max_sessions_saw_all_full : forall n tr s t,
  srun n sinit tr = Some s -> pc s t = TFull ->
  forall j, j < n ->
  exists tr1 e tr2 s1,
    tr = tr1 ++ e :: tr2 /\ srun n sinit tr1 = Some s1 /\
    running s1 j = true /\ observes e t j = true /\ ~ In (EnterCall t) tr2.
Proof. exact full_saw_all. Qed.
Print Assumptions C14_max_sessions_saw_all_full.

(** from any state in which [t] is idle, [t]'s enter run alone terminates; it
    returns WARN_MAX_SESSIONS iff every slot is occupied, i.e. succeeds iff
    fewer than [n] slots are occupied, and then returns the lowest free slot *)
Theorem C14_quiescent_enter_iff_free : forall n s t, pc s t = TIdle ->
  (exists tr s',
     Forall (fun e => ev_thread e = t) tr /\
     (exists tr0, tr = tr0 ++ [EnterRet t (solo_enter n s t)]) /\
     srun n s tr = Some s' /\
     pc s' t = match solo_enter n s t with Some i => THold i | None => TIdle end /\
     (forall u, u <> t -> pc s' u = pc s u)) /\
  (solo_enter n s t = None <-> forall i, i < n -> running s i = true) /\
  ((exists i, solo_enter n s t = Some i) <-> occupied n s < n) /\
  (forall i, solo_enter n s t = Some i ->
     i < n /\ running s i = false /\ forall j, j < i -> running s j = true).
Proof. exact quiescent_enter_iff_free. Qed.
Print Assumptions C14_quiescent_enter_iff_free.

(** leave's last store frees the slot: a following solo enter succeeds with a
    slot no higher than the freed one *)
Theorem C14_slot_reuse : forall n s t i s', reachable n s ->
  sstep n s (ClearRunning t i) = Some s' ->
  running s' i = false /\ pc s' t = TIdle /\
  exists j, solo_enter n s' t = Some j /\ j <= i.
Proof. exact reuse. Qed.
Print Assumptions C14_slot_reuse.

(** non-vacuity: n = 2, three threads.  Threads 0 and 1 both load slot 0 as
    free; 0 wins the CAS, 1's CAS fails and it takes slot 1; thread 2 sees both
    slots occupied and gets WARN_MAX_SESSIONS; 0 leaves; 2 enters again and
    gets slot 0. *)
Definition c14_race : list sev :=
  [ EnterCall 0; EnterCall 1;
    LoadRunning 0 0 false; LoadRunning 1 0 false;
    CasRunning 0 0 true; CasRunning 1 0 false;
    LoadRunning 1 1 false; CasRunning 1 1 true;
    StoreBegin 0 0 5%N; StoreBegin 1 1 5%N;
    EnterRet 0 (Some 0); EnterRet 1 (Some 1) ].

Definition c14_full : list sev :=
  [ EnterCall 2; LoadRunning 2 0 true; LoadRunning 2 1 true ].

Definition c14_retry : list sev :=
  [ EnterRet 2 None;
    LeaveCall 0 0; ClearBegin 0 0; ClearRunning 0 0;
    EnterCall 2; LoadRunning 2 0 false; CasRunning 2 0 true;
    StoreBegin 2 0 7%N; EnterRet 2 (Some 0) ].

Definition c14_view (s : sst) :=
  (pc s 0, pc s 1, pc s 2, (running s 0, running s 1), (begin_ s 0, begin_ s 1), obs s 2).

Example C14_nonvacuous :
  option_map c14_view (srun 2 sinit c14_race) =
    Some (THold 0, THold 1, TIdle, (true, true), (5%N, 5%N), []) /\
  option_map c14_view (srun 2 sinit (c14_race ++ c14_full)) =
    Some (THold 0, THold 1, TFull, (true, true), (5%N, 5%N), [1; 0]) /\
  option_map c14_view (srun 2 sinit (c14_race ++ c14_full ++ c14_retry)) =
    Some (TIdle, THold 1, THold 0, (true, true), (7%N, 5%N), []) /\
  (* the loser of the race: its CAS on slot 0 failed because slot 0 was taken *)
  option_map (fun s => (pc s 1, obs s 1)) (srun 2 sinit (firstn 6 c14_race)) =
    Some (TProbe 1, [0]).
Proof. repeat split; vm_compute; reflexivity. Qed.
