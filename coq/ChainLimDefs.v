(** * ChainLimDefs: the size-limited forward scan and the right-to-left scan (max_size = 1, unbounded right end)
    over the leaf chain of one layer, against the writer events of ChainDefs (inserts, removes, splits, unlinks).

    Same granularity and same protocol as the scanner of ChainDefs (ERead / ENextVer / EValidate with the repaired
    stale-position check), plus
      - [ls_max] > 0: the scan ends as soon as [ls_max] keys have been delivered (scan_border: max_size);
      - [ls_rtl]: find_border descends with the greatest tuple, so the scan starts in the LAST live border, reads it,
        and after a successful validation returns its greatest key that is >= l (interface_scan.h: right_to_left is
        restricted to r_end = INF and max_size = 1; scan_helper.h stops at the first border node).
    Writer events are delegated to [cstep] (the scanner of the embedded [cstate] stays idle).

    Ghosts: [l_stable] keys present at the invocation and never removed since; [l_ever] keys present at some instant
    since the invocation.  Executable; proofs in ChainLimProofs.v. *)
From Yk Require Export ChainDefs.
Local Open Scope N_scope.

Record lscan := {
  ls_pc : scpc;
  ls_l : N; ls_r : option N;
  ls_max : nat;                               (* 0 = unlimited *)
  ls_rtl : bool;
  ls_cur : N; ls_v : cver;
  ls_snap : list N; ls_nxt : option N; ls_nv : cver;
  ls_res : list N;
  ls_nvset : list (N * cver);
  ls_restarts : N;
}.

Record lstate := {
  l_c : cstate;           (* the layer; its own scanner stays idle *)
  l_scan : lscan;
  l_stable : list N;      (* ghost *)
  l_ever : list N;        (* ghost *)
}.

Inductive lev :=
| LW (e : cev)                                         (* EIns / ERem / ESplit / EUnlink *)
| LBegin (l : N) (r : option N) (mx : nat) (rtl : bool)
| LRead | LNextVer | LValidate.

Definition idle_lscan : lscan :=
  {| ls_pc := CIdle; ls_l := 0; ls_r := None; ls_max := 0; ls_rtl := false; ls_cur := 0; ls_v := cver0; ls_snap := [];
     ls_nxt := None; ls_nv := cver0; ls_res := []; ls_nvset := []; ls_restarts := 0 |}.
Definition linit (kss : list (list N)) : lstate :=
  {| l_c := cinit kss; l_scan := idle_lscan; l_stable := []; l_ever := [] |}.

Definition lscanning (sc : lscan) : bool := match ls_pc sc with CIdle | CDone => false | _ => true end.
Definition lwriter (e : cev) : bool := match e with EIns _ | ERem _ | ESplit _ _ | EUnlink _ _ => true | _ => false end.

(** the last live node of the chain (the border find_border reaches with the greatest tuple) *)
Fixpoint last_live (best : option cnode) (ns : list cnode) : option cnode :=
  match ns with
  | [] => best
  | n :: tl => if live n then last_live (Some n) tl else last_live best tl
  end.

Definition lstart (ns : list cnode) (l : N) (r : option N) (mx : nat) (rtl : bool) (restarts : N) : option lscan :=
  match (if rtl then last_live None ns else cover l ns) with
  | None => None
  | Some n => Some {| ls_pc := CRead; ls_l := l; ls_r := r; ls_max := mx; ls_rtl := rtl; ls_cur := cn_id n;
                      ls_v := cn_ver n; ls_snap := []; ls_nxt := None; ls_nv := cver0; ls_res := []; ls_nvset := [];
                      ls_restarts := restarts |}
  end.

Definition set_lscan (s : lstate) (sc : lscan) : lstate :=
  {| l_c := l_c s; l_scan := sc; l_stable := l_stable s; l_ever := l_ever s |}.

Definition with_pc (sc : lscan) (pc : scpc) : lscan :=
  {| ls_pc := pc; ls_l := ls_l sc; ls_r := ls_r sc; ls_max := ls_max sc; ls_rtl := ls_rtl sc; ls_cur := ls_cur sc;
     ls_v := ls_v sc; ls_snap := ls_snap sc; ls_nxt := ls_nxt sc; ls_nv := ls_nv sc; ls_res := ls_res sc;
     ls_nvset := ls_nvset sc; ls_restarts := ls_restarts sc |}.

Definition lstep (s : lstate) (e : lev) : option lstate :=
  let ns := c_nodes (l_c s) in
  let sc := l_scan s in
  match e with
  | LW w =>
      if lwriter w then
        match cstep true (l_c s) w with
        | None => None
        | Some c' =>
            Some {| l_c := c'; l_scan := sc;
                    l_stable := match w with ERem k => remove_key k (l_stable s) | _ => l_stable s end;
                    l_ever := match w with
                              | EIns k => if lscanning sc then k :: l_ever s else l_ever s
                              | _ => l_ever s
                              end |}
        end
      else None
  | LBegin l r mx rtl =>
      match ls_pc sc with
      | CIdle =>
          (* the API restriction: right-to-left only with max_size = 1 and an unbounded right end *)
          if rtl && negb (Nat.eqb mx 1 && match r with None => true | Some _ => false end) then None else
          match lstart ns l r mx rtl 0 with
          | None => None
          | Some sc' => Some {| l_c := l_c s; l_scan := sc'; l_stable := all_keys ns; l_ever := all_keys ns |}
          end
      | _ => None
      end
  | LRead =>
      match ls_pc sc with
      | CRead =>
          match find_node (ls_cur sc) ns with
          | None => None
          | Some n =>
              Some (set_lscan s {| ls_pc := CNextVer; ls_l := ls_l sc; ls_r := ls_r sc; ls_max := ls_max sc;
                                   ls_rtl := ls_rtl sc; ls_cur := ls_cur sc; ls_v := ls_v sc; ls_snap := cn_keys n;
                                   ls_nxt := cn_next n; ls_nv := ls_nv sc; ls_res := ls_res sc;
                                   ls_nvset := ls_nvset sc; ls_restarts := ls_restarts sc |})
          end
      | _ => None
      end
  | LNextVer =>
      match ls_pc sc with
      | CNextVer =>
          let nv := match ls_nxt sc with
                    | Some id => match find_node id ns with Some n => cn_ver n | None => cver0 end
                    | None => cver0
                    end in
          Some (set_lscan s {| ls_pc := CValidate; ls_l := ls_l sc; ls_r := ls_r sc; ls_max := ls_max sc;
                               ls_rtl := ls_rtl sc; ls_cur := ls_cur sc; ls_v := ls_v sc; ls_snap := ls_snap sc;
                               ls_nxt := ls_nxt sc; ls_nv := nv; ls_res := ls_res sc; ls_nvset := ls_nvset sc;
                               ls_restarts := ls_restarts sc |})
      | _ => None
      end
  | LValidate =>
      match ls_pc sc with
      | CValidate =>
          match find_node (ls_cur sc) ns with
          | None => None
          | Some n =>
              let w := cn_ver n in
              let restart := match lstart ns (ls_l sc) (ls_r sc) (ls_max sc) (ls_rtl sc) (ls_restarts sc + 1) with
                             | Some sc' => Some (set_lscan s sc') | None => None end in
              let finish res' nvs' :=
                Some (set_lscan s {| ls_pc := CDone; ls_l := ls_l sc; ls_r := ls_r sc; ls_max := ls_max sc;
                                     ls_rtl := ls_rtl sc; ls_cur := ls_cur sc; ls_v := ls_v sc; ls_snap := [];
                                     ls_nxt := None; ls_nv := cver0; ls_res := res'; ls_nvset := nvs';
                                     ls_restarts := ls_restarts sc |}) in
              if cver_eqb w (ls_v sc) then
                let nvs' := ls_nvset sc ++ [(ls_cur sc, ls_v sc)] in
                if ls_rtl sc then
                  (* the greatest key of this (last) border that is >= l *)
                  finish (match rev (filter (fun k => ls_l sc <=? k) (ls_snap sc)) with [] => [] | k :: _ => [k] end) nvs'
                else
                let stale := match last_key (ls_res sc) with
                             | Some lk => existsb (fun k => k <=? lk) (ls_snap sc)
                             | None => false
                             end in
                if stale then restart else
                let ks := filter (fun k => ls_l sc <=? k) (ls_snap sc) in
                let inr := filter (fun k => le_r k (ls_r sc)) ks in
                let room := (ls_max sc - length (ls_res sc))%nat in
                let take := if Nat.eqb (ls_max sc) 0 then inr else firstn room inr in
                let res' := ls_res sc ++ take in
                let full := negb (Nat.eqb (ls_max sc) 0) && Nat.leb (ls_max sc) (length res') in
                let beyond := existsb (fun k => negb (le_r k (ls_r sc))) ks in
                match (if full || beyond then None else ls_nxt sc) with
                | None => finish res' nvs'
                | Some nx =>
                    Some (set_lscan s {| ls_pc := CRead; ls_l := ls_l sc; ls_r := ls_r sc; ls_max := ls_max sc;
                                         ls_rtl := false; ls_cur := nx; ls_v := ls_nv sc; ls_snap := [];
                                         ls_nxt := None; ls_nv := cver0; ls_res := res'; ls_nvset := nvs';
                                         ls_restarts := ls_restarts sc |})
                end
              else if negb (cv_split w =? cv_split (ls_v sc)) || cv_del w then restart
              else
                Some (set_lscan s {| ls_pc := CRead; ls_l := ls_l sc; ls_r := ls_r sc; ls_max := ls_max sc;
                                     ls_rtl := ls_rtl sc; ls_cur := ls_cur sc; ls_v := w; ls_snap := [];
                                     ls_nxt := None; ls_nv := cver0; ls_res := ls_res sc; ls_nvset := ls_nvset sc;
                                     ls_restarts := ls_restarts sc |})
          end
      | _ => None
      end
  end.

Fixpoint lrun (s : lstate) (evs : list lev) : option lstate :=
  match evs with
  | [] => Some s
  | e :: tl => match lstep s e with Some s' => lrun s' tl | None => None end
  end.

(** what a completed scan is supposed to have covered *)
Definition interval_keys (sc : lscan) (ns : list cnode) : list N :=
  filter (in_interval (ls_l sc) (ls_r sc)) (all_keys ns).
Definition expected_result (sc : lscan) (ns : list cnode) : list N :=
  if ls_rtl sc then match rev (filter (fun k => ls_l sc <=? k) (all_keys ns)) with [] => [] | k :: _ => [k] end
  else if Nat.eqb (ls_max sc) 0 then interval_keys sc ns else firstn (ls_max sc) (interval_keys sc ns).

(** examples: a limited scan that ends inside the second border; a right-to-left scan whose border is split under it *)
Definition lim_trace : list lev :=
  [LBegin 0 None 3 false; LRead; LNextVer; LValidate; LW (EIns 25); LRead; LNextVer; LValidate; LRead; LNextVer; LValidate].
Definition rtl_trace : list lev :=
  [LBegin 15 None 1 true; LRead; LW (ESplit 1 30); LW (EIns 50); LNextVer; LValidate; LRead; LNextVer; LValidate].
Definition lres (kss : list (list N)) (tr : list lev) : option (scpc * list N * N * list (N * cver)) :=
  match lrun (linit kss) tr with
  | Some s => Some (ls_pc (l_scan s), ls_res (l_scan s), ls_restarts (l_scan s), ls_nvset (l_scan s))
  | None => None
  end.
