(** * C04 -- a scan of a border node that runs concurrently with puts and
    removes is per-key consistent.
    Model: BorderScanDefs.v (scanner threads next to the point operations of
    BorderDefs.v, one shared-memory access per step, any interleaving).
    [sc_seen (scn s t) k] is the ghost history of key [k] for scanner [t]: the
    binding at the scan's invocation and every binding since. *)
From Coq Require Import NArith List Sorted.
From Yk Require Import BorderDefs BorderProofs BorderScanDefs BorderScanProofs.
Import ListNotations.
Local Open Scope N_scope.

(** In every reachable state, for every scanner [t]:
    the history starts at the invocation, contains the current binding of every
    key while the scan is active, and only grows; and when the scan of the node
    has completed ([SDone v res]) the result [res] has strictly increasing
    keys, every returned pair (k, w) has w <> 0 and [Some w] was the binding of
    [k] at some instant of the scan, and every key that is NOT returned was
    unbound at some instant of the scan.  (A key whose binding did not change
    during the scan has a one-element history, hence it is returned with
    exactly that value, or not returned exactly if it was unbound.) *)
Theorem C04_border_scan_perkey :
  forall s t, reach2 s ->
    (forall s' k, sstep2 s (EScanInvoke t) = Some s' -> sc_seen (scn s' t) k = [bm (base s) k]) /\
    (sc_active (scn s t) = true -> forall k, In (bm (base s) k) (sc_seen (scn s t) k)) /\
    (forall e s' k, sstep2 s e = Some s' -> e <> EScanInvoke t -> e <> EScanReturn t ->
       exists l, sc_seen (scn s' t) k = l ++ sc_seen (scn s t) k) /\
    (forall v res, sc_pc (scn s t) = SDone v res ->
       let seen := sc_seen (scn s t) in
       sc_active (scn s t) = true /\
       StronglySorted N.lt (map fst res) /\
       (forall k w, In (k, w) res -> w <> 0 /\ In (Some w) (seen k)) /\
       (forall k, ~ In k (map fst res) -> In None (seen k))).
Proof. exact scan_perkey_full. Qed.
Print Assumptions C04_border_scan_perkey.

(** Adding scanners does not disturb the point operations: the inductive
    invariant of BorderProofs.v (mutex, sorted duplicate-free permutation,
    representation of the abstract map, per-thread facts) holds in every
    reachable state of the combined system. *)
Theorem C04_base_invariant : forall s, reach2 s -> Inv (base s).
Proof. exact scan_base_invariant. Qed.
Print Assumptions C04_base_invariant.

(** Non-vacuity: keys 5 -> 7 and 9 -> 3 are bound.  Scanner 0 starts, accepts
    nothing yet (it has loaded key and word of slot 0); thread 1 removes key 9
    completely; the scanner accepts (5,7), then reads the cleared word of the
    removed slot and starts the node again; thread 2 starts an insert of
    2 -> 4; the scanner collects (5,7) again; the insert completes (counter
    2 -> 3); the scanner's final check fails, it adopts counter 3, reads the
    node again and completes. *)
Definition c04_prefix : list sev2 :=
  sput 0 5 7 11 ++ sput 0 9 3 12 ++
  [EScanInvoke 0] ++ ssteps 0 4 ++
  [EBase (BInvoke 1 (OpRem 9))] ++ sbsteps 1 11 ++ [EBase (BReturn 1)] ++
  ssteps 0 3.
Definition c04_trace : list sev2 :=
  c04_prefix ++ ssteps 0 1 ++
  [EBase (BInvoke 2 (OpPut 2 4))] ++ sbsteps 2 4 ++
  ssteps 0 4 ++
  sbsteps 2 7 ++ [EBase (BReturn 2)] ++
  ssteps 0 11.

Example C04_nonvacuous :
  match srun2 sinit2 c04_prefix, srun2 sinit2 (c04_prefix ++ ssteps 0 1), srun2 sinit2 c04_trace with
  | Some s1, Some s2, Some s =>
    (* the cleared word of the removed slot is seen and the node is read again *)
    sc_pc (scn s1 0%nat) = SCheck 2 9 0 [] [(5, 7)] /\
    sc_pc (scn s2 0%nat) = SPerm 2 /\
    (* the completed scan *)
    sc_pc (scn s 0%nat) = SDone 3 [(2, 4); (5, 7)] /\
    sc_seen (scn s 0%nat) 2 = [Some 4; None] /\
    sc_seen (scn s 0%nat) 5 = [Some 7] /\
    sc_seen (scn s 0%nat) 9 = [None; Some 3] /\
    sc_seen (scn s 0%nat) 6 = [None] /\
    map (bm (base s)) [2; 5; 9] = [Some 4; Some 7; None] /\
    b_vins (base s) = 3 /\ b_locked (base s) = false
  | _, _, _ => False
  end.
Proof. vm_compute. repeat split. Qed.

(** ** The hand-over between border nodes (ChainProofs): a forward scan moving along the leaf chain of a layer
    while writers insert, remove, split nodes and unlink emptied nodes -- every interleaving, any number of
    nodes.  [crun true] is the scanner after the repair 61cfe63, [crun false] the original one. *)
From Yk Require Import ChainDefs ChainProofs.

(** the delivered keys are strictly ascending at every instant *)
Theorem C04_chain_ascending : forall kss evs s,
  kss_ok kss = true -> crun true (cinit kss) evs = Some s ->
  sorted_strict (sc_res (c_scan s)) = true.
Proof. exact chain_scan_ascending. Qed.
Print Assumptions C04_chain_ascending.

(** every delivered key lies in the interval and was present at some instant since the invocation *)
Theorem C04_chain_sound : forall kss evs s k,
  kss_ok kss = true -> crun true (cinit kss) evs = Some s ->
  In k (sc_res (c_scan s)) ->
  in_interval (sc_l (c_scan s)) (sc_r (c_scan s)) k = true /\ In k (c_ever s).
Proof. exact chain_scan_sound. Qed.
Print Assumptions C04_chain_sound.

(** a completed scan has delivered every key of the interval that was present during the whole scan *)
Theorem C04_chain_no_lost_stable_key : forall kss evs s k,
  kss_ok kss = true -> crun true (cinit kss) evs = Some s ->
  sc_pc (c_scan s) = CDone -> In k (c_stable s) ->
  in_interval (sc_l (c_scan s)) (sc_r (c_scan s)) k = true ->
  In k (sc_res (c_scan s)).
Proof. exact chain_scan_no_lost_stable_key. Qed.
Print Assumptions C04_chain_no_lost_stable_key.

(** meaning of the ghosts used above *)
Theorem C04_chain_ghosts : forall fx kss evs s k,
  kss_ok kss = true -> crun fx (cinit kss) evs = Some s ->
  (In k (c_stable s) -> In k (all_keys (c_nodes s))) /\
  (scanning (c_scan s) = true -> In k (all_keys (c_nodes s)) -> In k (c_ever s)).
Proof.
  intros fx kss evs s k H1 H2. split.
  - exact (chain_stable_present fx kss evs s k H1 H2).
  - exact (chain_present_ever fx kss evs s k H1 H2).
Qed.
Print Assumptions C04_chain_ghosts.

(** the original scanner is refuted (finding F8): after the border it has left is emptied and unlinked, keys
    inserted at or below the delivered ones land in the next border and are delivered again *)
Theorem C04_original_chain_not_ascending_refuted :
  exists evs s, crun false (cinit [[10]; [20; 30]]) evs = Some s /\
    sc_pc (c_scan s) = CDone /\ sorted_strict (sc_res (c_scan s)) = false.
Proof. exact chain_original_not_ascending. Qed.
Print Assumptions C04_original_chain_not_ascending_refuted.

Example C04_chain_nonvacuous : exists evs s, crun true (cinit [[10]; [20; 30]]) evs = Some s /\
  sc_pc (c_scan s) = CDone /\ sc_res (c_scan s) = [10; 20; 30] /\ (1 <=? sc_restarts (c_scan s)) = true.
Proof. exact chain_nonvacuous. Qed.

(** ** Size-limited and right-to-left scans along the chain (ChainLimProofs) *)
From Yk Require Import ChainLimDefs ChainLimProofs.

Theorem C04_chain_limited_ascending : forall kss evs s, kss_ok kss = true -> lrun (linit kss) evs = Some s ->
  sorted_strict (ls_res (l_scan s)) = true /\
  (ls_max (l_scan s) <> 0%nat -> (length (ls_res (l_scan s)) <= ls_max (l_scan s))%nat).
Proof. exact lim_scan_ascending. Qed.
Print Assumptions C04_chain_limited_ascending.

Theorem C04_chain_limited_sound : forall kss evs s k, kss_ok kss = true -> lrun (linit kss) evs = Some s ->
  In k (ls_res (l_scan s)) ->
  in_interval (ls_l (l_scan s)) (ls_r (l_scan s)) k = true /\ In k (l_ever s).
Proof. exact lim_scan_sound. Qed.
Print Assumptions C04_chain_limited_sound.

(** a completed forward scan has delivered every stable key of the part of the interval it covered *)
Theorem C04_chain_limited_no_lost_stable_key : forall kss evs s k, kss_ok kss = true -> lrun (linit kss) evs = Some s ->
  ls_pc (l_scan s) = CDone -> ls_rtl (l_scan s) = false -> In k (l_stable s) ->
  in_interval (ls_l (l_scan s)) (ls_r (l_scan s)) k = true ->
  (ls_max (l_scan s) = 0%nat \/ (length (ls_res (l_scan s)) < ls_max (l_scan s))%nat \/
   (exists lk, last_key (ls_res (l_scan s)) = Some lk /\ k <= lk)) ->
  In k (ls_res (l_scan s)).
Proof. exact lim_scan_no_lost_stable_key. Qed.
Print Assumptions C04_chain_limited_no_lost_stable_key.

(** right-to-left: when the validated last border was not empty, no stable key >= l is greater than the delivered key.
    The hypothesis is necessary in the model, where a remove and the unlink of the emptied border are two steps
    ([rtl_empty_last_border_counterexample]); in the code both happen under one lock, so a reader never validates an
    empty non-root border -- the precise form of that dependency. *)
Theorem C04_chain_rtl_greatest_stable_partial : forall kss evs1 s1 s2 evs2 s k,
  kss_ok kss = true -> lrun (linit kss) evs1 = Some s1 -> lstep s1 LValidate = Some s2 ->
  ls_rtl (l_scan s1) = true -> ls_pc (l_scan s2) = CDone -> ls_snap (l_scan s1) <> [] ->
  lrun s2 evs2 = Some s -> In k (l_stable s) -> ls_l (l_scan s) <= k ->
  exists d, ls_res (l_scan s) = [d] /\ k <= d.
Proof. exact rtl_scan_greatest_stable_validated. Qed.
Print Assumptions C04_chain_rtl_greatest_stable_partial.
