(** * C05 -- node-version sets from reads detect every later insert into the read range.
    (Property theorems; the positive coverage theorem is added by ScanProofs.) *)
From Coq Require Import NArith List.
From Yk Require Import SysDefs.
Import ListNotations.
Local Open Scope N_scope.

(** The scan of the pinned source returned from the layer-link branch (right
    endpoint reached at a link entry) without recording the enclosing border:
    with the single key "aaaaaaaab", scan (-inf, "aaaaaaaa"] yields an EMPTY
    node-version set, so the later insert of "a" cannot be detected (finding F2). *)
Definition c05_key : key := [97;97;97;97;97;97;97;97;98].
Definition c05_args : scan_args :=
  {| sa_l := []; sa_le := EP_INF; sa_r := [97;97;97;97;97;97;97;97]; sa_re := EP_INCL; sa_max := 0%nat;
     sa_rtl := false; sa_lnull := false; sa_rnull := false |}.

Theorem C05_original_scan_empty_nodeset_refuted :
  exists tr o,
    trees_get (sy_trees (fst (exec_all sys_init [OCreate [115]; OPut [115] c05_key [1] 1 false false]))) 1 = Some tr /\
    scan_nofix2 tr c05_args = Some o /\ so_status o = St_OK /\ so_tuples o = [] /\ so_nv o = [] /\
    exists o', scan tr c05_args = Some o' /\ so_nv o' <> [].
Proof.
  eexists. eexists. split; [vm_compute; reflexivity|]. split; [vm_compute; reflexivity|].
  repeat split. eexists. split; [vm_compute; reflexivity|]. cbn. discriminate.
Qed.
Print Assumptions C05_original_scan_empty_nodeset_refuted.

(** ** Multi-node form under concurrency (ChainProofs): along the whole leaf chain, under inserts, removes,
    splits and unlinks in any interleaving.  A remove does not change the version word of its border (in the code
    and in the model), so unchanged versions exclude undetected INSERTS, not removes: every key of the interval
    that exists now is in the result; the result is exact when no remove happened since the invocation. *)
From Yk Require Import ChainDefs ChainProofs.
Theorem C05_chain_no_undetected_insert : forall kss evs s k,
  kss_ok kss = true -> crun true (cinit kss) evs = Some s -> sc_pc (c_scan s) = CDone ->
  (forall id v, In (id, v) (sc_nvset (c_scan s)) -> exists n, find_node id (c_nodes s) = Some n /\ cn_ver n = v) ->
  In k (all_keys (c_nodes s)) -> in_interval (sc_l (c_scan s)) (sc_r (c_scan s)) k = true ->
  In k (sc_res (c_scan s)).
Proof. exact chain_scan_no_phantom_insert. Qed.
Print Assumptions C05_chain_no_undetected_insert.

Theorem C05_chain_unchanged_versions_exact_result_no_removes : forall kss evs s,
  kss_ok kss = true -> crun true (cinit kss) evs = Some s -> sc_pc (c_scan s) = CDone ->
  (forall k, ~ In (ERem k) evs) ->
  (forall id v, In (id, v) (sc_nvset (c_scan s)) -> exists n, find_node id (c_nodes s) = Some n /\ cn_ver n = v) ->
  sc_res (c_scan s) = filter (in_interval (sc_l (c_scan s)) (sc_r (c_scan s))) (all_keys (c_nodes s)).
Proof. exact chain_scan_phantom_free_no_removes. Qed.
Print Assumptions C05_chain_unchanged_versions_exact_result_no_removes.

(** with removes the exact form is false: the model (and the code) cannot see a remove through the versions *)
Theorem C05_chain_exact_with_remove_refuted : exists evs s, crun true (cinit [[10]; [20; 30]]) evs = Some s /\
  sc_pc (c_scan s) = CDone /\
  (forall id v, In (id, v) (sc_nvset (c_scan s)) -> exists n, find_node id (c_nodes s) = Some n /\ cn_ver n = v) /\
  sc_res (c_scan s) = [10; 20; 30] /\ all_keys (c_nodes s) = [10; 30] /\
  sc_res (c_scan s) <> filter (in_interval (sc_l (c_scan s)) (sc_r (c_scan s))) (all_keys (c_nodes s)).
Proof. exact chain_phantom_free_with_remove_refuted. Qed.
Print Assumptions C05_chain_exact_with_remove_refuted.

(** ** Store level, sequential form (PhantomProofs): any number of layers, any max_size, both directions.
    If a scan collected the node-version set and afterwards an ABSENT key of the range the scan covered is
    inserted, at least one recorded (border, version) pair is stale in the new store -- and it is the border
    that put reports as modified. *)
From Yk Require Import KeyProofs TreeDefs ScanDefs SpecDefs StoreProofs ScanProofs PhantomProofs.

Theorem C05_scan_detects_insert : forall ctr tr a o k v tr' po ctr',
  WF_store ctr tr -> scan_inv tr -> t_null tr = false ->
  bytes (sa_l a) -> bytes (sa_r a) -> bytes k ->
  spec_scan_args_ok a = true -> scan tr a = Some o ->
  smap_get (abs_tree tr) k = None ->
  covered a (so_tuples o) k = true ->
  put tr k v false ctr = Some (tr', po, ctr') ->
  exists id ver, In (id, ver) (so_nv o) /\ store_leaf_ver tr' id <> Some ver.
Proof. exact scan_detects_insert. Qed.
Print Assumptions C05_scan_detects_insert.

Theorem C05_nv_nonempty : forall tr a o,
  scan tr a = Some o -> so_status o = St_OK -> so_nv o <> [].
Proof. exact scan_nv_nonempty. Qed.
Print Assumptions C05_nv_nonempty.
