#!/bin/sh
# Build the framework from files on disk only (offline): Coq development
# (full .vo build), extracted model, OCaml drivers.  C++ harnesses are rebuilt
# from /repo by each check.
set -e
cd "$(dirname "$0")"
python3 - <<'PY'
import sys
sys.path.insert(0, '.')
from vlib import common as C
ok, log = C.coq_make([], timeout=3000)
print(log[-3000:])
if not ok:
    sys.exit(1)
for d in ("leaf_main", "seq_main", "lin_main", "epoch_main", "sess_main", "border_main", "chain_main", "ver_main"):
    ok, log = C.build_model(d)
    if not ok:
        print(log[-3000:]); sys.exit(1)
PY
