(* lin_main: evaluates the extracted, verified per-key linearizability checker
   (LinDefs.lin_check; LinProofs: sound, and complete for well-formed
   intervals) on histories written one per line:
     <init|-> <inv> <res> <kind> <arg|-> <out> ...   (5 tokens per operation)
   prints 1 / 0 per line. *)
open Ykmodel
open Yutil

let num s = n_of_hex s

let () =
  let lines = read_lines Sys.argv.(1) in
  List.iter (fun line ->
      match split_ws line with
      | [] -> ()
      | init :: rest ->
        let st = if init = "-" then None else Some (num init) in
        let rec ops = function
          | inv :: res :: kind :: arg :: out :: r ->
            let k = (match kind with
                | "put" -> KPut (num arg) | "uput" -> KUput (num arg) | "get" -> KGet | "rem" -> KRem
                | "read" -> KRead (num arg) | "absent" -> KAbsent | _ -> failwith ("kind " ^ kind)) in
            let o = (match String.split_on_char ':' out with
                | ["ok"] -> RsOK | ["val"; v] -> RsVal (num v) | ["notexist"] -> RsNotExist
                | ["notfound"] -> RsNotFound | ["unique"] -> RsUnique | ["none"] -> RsNone
                | _ -> failwith ("out " ^ out)) in
            { h_inv = num inv; h_res = num res; h_kind = k; h_out = o } :: ops r
          | [] -> []
          | _ -> failwith "history arity" in
        print_endline (if lin_check st (ops rest) then "1" else "0")) lines
