(* seq_main: runs the extracted Coq model (SysDefs.exec) on an operation script
   and prints the canonical result lines that harness/seq_driver.cpp prints for
   the real library. *)
open Ykmodel
open Yutil

let status_s = function
  | St_OK -> "OK" | St_WARN_NOT_EXIST -> "WARN_NOT_EXIST"
  | St_WARN_UNIQUE_RESTRICTION -> "WARN_UNIQUE_RESTRICTION" | St_OK_NOT_FOUND -> "OK_NOT_FOUND"
  | St_OK_ROOT_IS_NULL -> "OK_ROOT_IS_NULL" | St_ERR_BAD_USAGE -> "ERR_BAD_USAGE"
  | St_WARN_STORAGE_NOT_EXIST -> "WARN_STORAGE_NOT_EXIST" | St_WARN_EXIST -> "WARN_EXIST"
  | St_ERR_FATAL -> "ERR_FATAL" | St_OK_SCAN_END -> "OK_SCAN_END" | St_OK_SCAN_CONTINUE -> "OK_SCAN_CONTINUE"
  | St_WARN_CONCURRENT_OPERATIONS -> "WARN_CONCURRENT_OPERATIONS" | St_OK_DESTROY_ALL -> "OK_DESTROY_ALL"
  | St_WARN_ABORTED_BY_USER -> "WARN_ABORTED_BY_USER"

let id_s (i : n) = "#" ^ string_of_int (int_of_n i)
let ep_of = function "EX" -> EP_EXCL | "IN" -> EP_INCL | _ -> EP_INF

(* key token: hex | "-" | "~N" (null data of size N: N placeholder bytes) *)
let key_tok t =
  if String.length t > 0 && t.[0] = '~'
  then (List.init (int_of_string (String.sub t 1 (String.length t - 1))) (fun _ -> N0), true)
  else (bytes_of_hex t, false)

let word_of_bytes (l : n list) : string =
  (* little-endian 8-byte word of an inline value *)
  let rec go l sh acc = match l with
    | [] -> acc
    | b :: r -> if sh >= 64 then acc else go r (sh + 8) (N.add acc (N.mul b (n_of_hex (if sh = 0 then "1" else "1" ^ String.make (sh / 4) '0')))) in
  hex_of_n (go l 0 N0)

let value_s (v : value) =
  if v.v_inline then "w" ^ word_of_bytes v.v_bytes
  else hex_of_bytes v.v_bytes

(* ---- dump of a tree: same lines as the C++ walker ------------------------ *)
let take16 l = let rec t n l = if n = 0 then [] else match l with [] -> [] | x :: r -> x :: t (n - 1) r in t 16 l

let dump_tree (tr : tree) (buf : Buffer.t) =
  let layers = tr.t_layers in
  let rec walk (t : bt) (parent : string) (p : prefix) (prevnext : (n, (string * string)) Hashtbl.t) =
    match t with
    | BLeaf l ->
      let (pv, nx) = try Hashtbl.find prevnext l.lf_id with Not_found -> ("-", "-") in
      let ranked = leaf_ranked l in
      Buffer.add_string buf (Printf.sprintf "B %s ver=%s perm=%s parent=%s pok=1 prev=%s next=%s n=%d ["
                               (id_s l.lf_id) (hex_of_n l.lf_ver) (hex_of_n l.lf_perm) parent pv nx
                               (List.length ranked));
      let subs = ref [] in
      List.iter (fun (slot, s) ->
          Buffer.add_string buf (Printf.sprintf " %d:%s:%d:" (int_of_n slot) (hex_of_n s.sl_key.ks) (int_of_n s.sl_key.kl));
          (match s.sl_lv with
           | LLink ->
             let p' = p @ [s.sl_key.ks] in
             (match layer_get layers p' with
              | Some root -> Buffer.add_string buf ("L" ^ id_s (bt_id root)); subs := (root, p') :: !subs
              | None -> Buffer.add_string buf "L#missing")
           | LValue v ->
             if v.v_inline then Buffer.add_string buf ("W" ^ word_of_bytes v.v_bytes)
             else Buffer.add_string buf (Printf.sprintf "V%s:%d:%d:%s" (id_s v.v_id) (List.length v.v_bytes)
                                           (int_of_n v.v_align) (hex_of_bytes (take16 v.v_bytes)))
           | LEmpty -> Buffer.add_string buf "E")) ranked;
      Buffer.add_string buf " ]\n";
      List.iter (fun (root, p') -> walk_layer root (id_s l.lf_id) p') (List.rev !subs)
    | BInt (id, ver, keys, ch) ->
      Buffer.add_string buf (Printf.sprintf "I %s ver=%s parent=%s pok=1 n=%d keys=[" (id_s id) (hex_of_n ver) parent (List.length keys));
      List.iter (fun k -> Buffer.add_string buf (Printf.sprintf " %s:%d" (hex_of_n k.ks) (int_of_n k.kl))) keys;
      Buffer.add_string buf " ] ch=[";
      List.iter (fun c -> Buffer.add_string buf (" " ^ id_s (bt_id c))) ch;
      Buffer.add_string buf " ]\n";
      List.iter (fun c -> walk c (id_s id) p prevnext) ch
  and walk_layer (root : bt) (parent : string) (p : prefix) =
    let leaves = Array.of_list (bt_leaves root) in
    let pn = Hashtbl.create 16 in
    Array.iteri (fun i l ->
        let pv = if i = 0 then "-" else id_s leaves.(i - 1).lf_id in
        let nx = if i = Array.length leaves - 1 then "-" else id_s leaves.(i + 1).lf_id in
        Hashtbl.replace pn l.lf_id (pv, nx)) leaves;
    walk root parent p pn in
  match layer_get layers [] with
  | Some root -> walk_layer root "-" []
  | None -> ()


(* version word of every node of a tree, by id (for the staleness test of C05) *)
let versions_of (tr : tree) : (int, n) Hashtbl.t =
  let h = Hashtbl.create 64 in
  let rec walk t = match t with
    | BLeaf l -> Hashtbl.replace h (int_of_n l.lf_id) l.lf_ver
    | BInt (id, ver, _, ch) -> Hashtbl.replace h (int_of_n id) ver; List.iter walk ch in
  List.iter (fun (_, t) -> walk t) tr.t_layers; h

let rec lexlt (a : n list) (b : n list) = match a, b with
  | _, [] -> false | [], _ :: _ -> true
  | x :: a', y :: b' -> let c = compare (int_of_n x) (int_of_n y) in if c < 0 then true else if c > 0 then false else lexlt a' b'


(* library allocations (aligned new: nodes and out-of-line value blocks) reachable from a tree *)
let tree_allocs (tr : tree) : int =
  let rec bt_n t = match t with
    | BLeaf l -> 1 + List.fold_left (fun a (_, s) -> match s.sl_lv with LValue v when not v.v_inline -> a + 1 | _ -> a) 0 (leaf_ranked l)
    | BInt (_, _, _, ch) -> 1 + List.fold_left (fun a c -> a + bt_n c) 0 ch in
  List.fold_left (fun a (_, t) -> a + bt_n t) 0 tr.t_layers
let sys_allocs (s : sys) : int =
  tree_allocs s.sy_outer + List.fold_left (fun a (_, t) -> a + tree_allocs t) 0 s.sy_trees
let allocs_line (before : sys) (after : sys) (status_ok : bool) (kind : string) (retired : int) : string =
  (* new reachable allocations + the ones that became unreachable but are only retired (not yet freed) *)
  let d = sys_allocs after - sys_allocs before + retired in
  match kind with
  | "put" -> if status_ok then Printf.sprintf " aa=%d af=0" d else " aa=0 af=0"
  | "rem" -> " aa=0 af=0"
  | "create" -> if status_ok then Printf.sprintf " aa=%d af=0" d else " aa=1 af=1"
  | "dropst" ->
    (* the dropped user tree is destroyed at once; the outer entry (value, emptied nodes) is only retired *)
    let dropped = List.fold_left (fun a (sid, t) ->
        if List.exists (fun (sid', _) -> N.eqb sid sid') after.sy_trees then a else a + tree_allocs t) 0 before.sy_trees in
    Printf.sprintf " aa=0 af=%d" (if status_ok then dropped else 0)
  | "destroy" -> Printf.sprintf " aa=0 af=%d" (sys_allocs before)
  | _ -> ""

let aval_s (v : aval) len_of =
  if v.av_inline then "w" ^ word_of_bytes v.av_bytes else hex_of_bytes v.av_bytes

(* the abstract (spec-level) line of an op result *)
let spec_line (name : string) (a : aout) : string =
  match a with
  | AStatus s -> if name = "scan" then Printf.sprintf "scan %s n=0 t=[ ]" (status_s s) else name ^ " " ^ status_s s
  | APut s -> name ^ " " ^ status_s s
  | AGet (s, Some v) ->
    if v.av_inline then Printf.sprintf "get OK w=%s len=8" (word_of_bytes v.av_bytes)
    else Printf.sprintf "get OK v=%s len=%d al=1" (hex_of_bytes v.av_bytes) (List.length v.av_bytes)
  | AGet (s, None) -> "get " ^ status_s s
  | ARemove s -> "rem " ^ status_s s
  | AScan (s, ts) ->
    Printf.sprintf "scan %s n=%d t=[%s ]" (status_s s) (List.length ts)
      (String.concat "" (List.map (fun (k, v) ->
           Printf.sprintf " %s:%s:%d" (hex_of_bytes k) (aval_s v ()) (if v.av_inline then 8 else List.length v.av_bytes)) ts))
  | AList (s, names) ->
    "list " ^ status_s s ^ " [" ^ String.concat "" (List.map (fun k -> " " ^ hex_of_bytes k) names) ^ " ]"
  | AStuck -> name ^ " STUCK"

let () =
  let lines = read_lines Sys.argv.(1) in
  let st = ref sys_init in
  let sp = ref spec_init in
  let cur = ref "" in
  let prev_st = ref sys_init in
  (* "spec" as second argument: do not run the slot-level model (too slow for keys of tens of KiB: one trie layer
     per 8 bytes), only the specification, whose lines are the oracle for the implementation's results *)
  let spec_only = Array.length Sys.argv > 2 && Sys.argv.(2) = "spec" in
  let run o =
    prev_st := !st;
    let (s', r) = if spec_only then (!st, RStuck) else exec !st o in st := s';
    let (p', a) = spec_exec !sp o in sp := p';
    print_endline ("S " ^ spec_line !cur a);
    r in
  let print_endline s = print_endline ("M " ^ s) in
  let printf_m fmt = Printf.ksprintf print_endline fmt in
  List.iter (fun line ->
      (match split_ws line with t :: _ -> cur := t | [] -> ());
      match split_ws line with
      | [] -> ()
      | t :: _ when t.[0] = '#' -> ()
      | "init" :: _ -> print_endline "init"
      | "fin" :: _ ->
        ignore (run ODestroy);
        print_endline "fin"
      | "enter" :: _ -> print_endline "enter OK"
      | "leave" :: _ -> print_endline "leave OK"
      | "sleep" :: _ -> print_endline "sleep"
      | "destroy" :: _ ->
        (match run ODestroy with RStatus s -> print_endline ("destroy " ^ status_s s ^ allocs_line !prev_st !st true "destroy" 0) | _ -> print_endline "destroy STUCK")
      | "create" :: s :: _ ->
        (match run (OCreate (bytes_of_hex s)) with RStatus s -> print_endline ("create " ^ status_s s ^ allocs_line !prev_st !st (s = St_OK) "create" 0) | _ -> print_endline "create STUCK")
      | "dropst" :: s :: _ ->
        (match run (ODropStorage (bytes_of_hex s)) with RStatus s -> print_endline ("dropst " ^ status_s s ^ allocs_line !prev_st !st (s = St_OK) "dropst" 0) | _ -> print_endline "dropst STUCK")
      | "find" :: s :: _ ->
        (match run (OFind (bytes_of_hex s)) with RStatus s -> print_endline ("find " ^ status_s s) | _ -> print_endline "find STUCK")
      | "list" :: _ ->
        (match run OList with
         | RList (s, names) ->
           print_endline ("list " ^ status_s s ^ " [" ^ String.concat "" (List.map (fun k -> " " ^ hex_of_bytes k) names) ^ " ]")
         | _ -> print_endline "list STUCK")
      | "put" :: s :: k :: v :: al :: u :: i :: _ ->
        let inl = (i = "1") in
        let bytes = bytes_of_hex v in
        let bytes = if inl then (let rec pad l n = if n = 0 then [] else match l with [] -> N0 :: pad [] (n - 1) | x :: r -> x :: pad r (n - 1) in pad bytes 8) else bytes in
        (match run (OPut (bytes_of_hex s, bytes_of_hex k, bytes, n_of_int (int_of_string al), u = "1", inl)) with
         | RPut po ->
           (match po.po_status, po.po_info with
            | St_OK, Some info ->
              printf_m "put OK mod=%s cre=%s cvp=1%s" (id_s info.pi_modified)
                (match info.pi_created with Some c -> id_s c | None -> "-") (allocs_line !prev_st !st true "put" (List.length po.po_retired))
            | St_OK, None -> print_endline ("put OK mod=- cre=- cvp=1" ^ allocs_line !prev_st !st true "put" (List.length po.po_retired))
            | s, _ -> print_endline ("put " ^ status_s s ^ " aa=0 af=0"))
         | RStatus s -> print_endline ("put " ^ status_s s ^ " aa=0 af=0")
         | _ -> print_endline "put STUCK")
      | "get" :: s :: k :: _ ->
        (match run (OGet (bytes_of_hex s, bytes_of_hex k)) with
         | RGet g ->
           (match g.go_status, g.go_value, g.go_checked with
            | St_OK, Some v, _ ->
              if v.v_inline then printf_m "get OK w=%s len=8" (word_of_bytes v.v_bytes)
              else printf_m "get OK v=%s len=%d al=1" (hex_of_bytes v.v_bytes) (List.length v.v_bytes)
            | s, _, Some (id, ver) -> printf_m "get %s nv=%s:%s" (status_s s) (id_s id) (hex_of_n ver)
            | s, _, None -> print_endline ("get " ^ status_s s))
         | RStatus s -> print_endline ("get " ^ status_s s)
         | _ -> print_endline "get STUCK")
      | "rem" :: s :: k :: _ ->
        (match run (ORemove (bytes_of_hex s, bytes_of_hex k)) with
         | RRemove r -> print_endline ("rem " ^ status_s r.ro_status ^ " aa=0 af=0")
         | RStatus s -> print_endline ("rem " ^ status_s s ^ " aa=0 af=0")
         | _ -> print_endline "rem STUCK")
      | "scan" :: s :: l :: le :: r :: re :: mx :: rtl :: _ ->
        let (lk, ln) = key_tok l and (rk, rn) = key_tok r in
        let a = { sa_l = lk; sa_le = ep_of le; sa_r = rk; sa_re = ep_of re;
                  sa_max = nat_of_int (int_of_string mx); sa_rtl = (rtl = "1"); sa_lnull = ln; sa_rnull = rn } in
        (match run (OScan (bytes_of_hex s, a)) with
         | RScan so ->
           printf_m "scan %s n=%d t=[%s ] nv=[%s ]" (status_s so.so_status) (List.length so.so_tuples)
             (String.concat "" (List.map (fun (k, v) ->
                  Printf.sprintf " %s:%s:%d" (hex_of_bytes k) (value_s v) (if v.v_inline then 8 else List.length v.v_bytes)) so.so_tuples))
             (String.concat "" (List.map (fun (id, ver) -> " " ^ id_s id ^ ":" ^ hex_of_n ver) so.so_nv))
         | RStatus s -> printf_m "scan %s n=0 t=[ ] nv=[ ]" (status_s s)
         | _ -> print_endline "scan STUCK")
      | "iphantom" :: s :: l :: le :: r :: re :: rtl :: k :: v :: _ ->
        let sname = bytes_of_hex s in
        let tree_of () = match find_storage !st sname with
          | Some (Some sid) -> trees_get !st.sy_trees sid | _ -> None in
        let (lk, ln) = key_tok l and (rk, rn) = key_tok r in
        let a = { ia_l = lk; ia_le = ep_of le; ia_r = rk; ia_re = ep_of re; ia_rtl = (rtl = "1"); ia_lnull = ln; ia_rnull = rn } in
        let k = bytes_of_hex k and v = bytes_of_hex v in
        let (status, nres, cbs) = (match tree_of () with
            | Some tr -> (match iscan_all tr a with
                | Some ((stt, kv), cbs) -> (stt, List.length kv, cbs)
                | None -> (St_ERR_FATAL, 0, []))
            | None -> (St_WARN_STORAGE_NOT_EXIST, 0, [])) in
        let absent = (match exec !st (OGet (sname, k)) with (_, RGet g) -> g.go_status = St_WARN_NOT_EXIST | _ -> false) in
        let lks = if a.ia_le = EP_INF then [] else lk in
        let inl = a.ia_le = EP_INF || lexlt lks k || (lks = k && a.ia_le = EP_INCL) in
        let inr = a.ia_re = EP_INF || lexlt k rk || (k = rk && a.ia_re = EP_INCL) in
        let cov = status = St_OK && absent && inl && inr in
        let ps = if cov then
            (match exec !st (OPut (sname, k, v, n_of_int 1, false, false)) with
             | (s', RPut po) -> st := s'; ignore (spec_exec !sp (OPut (sname, k, v, n_of_int 1, false, false)) |> fun (p', _) -> sp := p'); status_s po.po_status
             | _ -> "STUCK") else "OK" in
        let det = cov && (match tree_of () with
            | Some tr -> let h = versions_of tr in
              List.exists (fun (id, ver) -> match Hashtbl.find_opt h (int_of_n id) with
                  | Some cur -> not (N.eqb cur ver) | None -> true) cbs
            | None -> false) in
        printf_m "iphantom %s n=%d cov=%s det=%s nvn=%d put=%s" (status_s status) nres (b2s cov) (b2s det) (List.length cbs) ps
      | ("phantom" | "getmiss") as opn :: s :: rest ->
        let sname = bytes_of_hex s in
        let tree_of () = match find_storage !st sname with
          | Some (Some sid) -> trees_get !st.sy_trees sid | _ -> None in
        let (status, nres, cov, nv, k, v) =
          (match opn, rest with
           | "phantom", l :: le :: r :: re :: mx :: rtl :: k :: v :: _ ->
             let (lk, ln) = key_tok l and (rk, rn) = key_tok r in
             let a = { sa_l = lk; sa_le = ep_of le; sa_r = rk; sa_re = ep_of re;
                       sa_max = nat_of_int (int_of_string mx); sa_rtl = (rtl = "1"); sa_lnull = ln; sa_rnull = rn } in
             let k = bytes_of_hex k in
             (match exec !st (OScan (sname, a)) with
              | (_, RScan so) ->
                let absent = (match exec !st (OGet (sname, k)) with (_, RGet g) -> g.go_status = St_WARN_NOT_EXIST | _ -> false) in
                let lks = if a.sa_le = EP_INF then [] else lk in
                let inl = a.sa_le = EP_INF || lexlt lks k || (lks = k && a.sa_le = EP_INCL) in
                let inr = a.sa_re = EP_INF || lexlt k rk || (k = rk && a.sa_re = EP_INCL) in
                let n = List.length so.so_tuples and mxi = int_of_string mx in
                let cov = so.so_status = St_OK && absent && inl && inr in
                let cov = if cov && mxi <> 0 && n >= mxi then
                    (let last = fst (List.nth so.so_tuples (n - 1)) in
                     if rtl = "1" then lexlt last k else lexlt k last) else cov in
                (so.so_status, n, cov, so.so_nv, k, bytes_of_hex v)
              | (_, RStatus stt) -> (stt, 0, false, [], k, bytes_of_hex v)
              | _ -> (St_ERR_FATAL, 0, false, [], k, bytes_of_hex v))
           | "getmiss", k :: v :: _ ->
             let k = bytes_of_hex k in
             (match exec !st (OGet (sname, k)) with
              | (_, RGet g) ->
                (g.go_status, 0, g.go_status = St_WARN_NOT_EXIST,
                 (match g.go_checked with Some x -> [x] | None -> []), k, bytes_of_hex v)
              | (_, RStatus stt) -> (stt, 0, false, [], k, bytes_of_hex v)
              | _ -> (St_ERR_FATAL, 0, false, [], k, bytes_of_hex v))
           | _ -> failwith "phantom args") in
        let ps = if cov then
            (match exec !st (OPut (sname, k, v, n_of_int 1, false, false)) with
             | (s', RPut po) -> st := s'; ignore (spec_exec !sp (OPut (sname, k, v, n_of_int 1, false, false)) |> fun (p', _) -> sp := p'); status_s po.po_status
             | _ -> "STUCK") else "OK" in
        let det = cov && (match tree_of () with
            | Some tr -> let h = versions_of tr in
              List.exists (fun (id, ver) -> match Hashtbl.find_opt h (int_of_n id) with
                  | Some cur -> not (N.eqb cur ver) | None -> true) nv
            | None -> false) in
        printf_m "%s %s n=%d cov=%s det=%s nvn=%d put=%s" opn (status_s status) nres (b2s cov) (b2s det) (List.length nv) ps
      | "putinfo" :: s :: k :: v :: _ ->
        let sname = bytes_of_hex s and k = bytes_of_hex k and v = bytes_of_hex v in
        let tree_of () = match find_storage !st sname with
          | Some (Some sid) -> trees_get !st.sy_trees sid | _ -> None in
        let leaves_of tr = List.concat_map (fun (_, t) -> bt_leaves t) tr.t_layers in
        let before = (match tree_of () with Some tr -> leaves_of tr | None -> []) in
        let existed = (match exec !st (OGet (sname, k)) with (_, RGet g) -> g.go_status = St_OK | _ -> false) in
        (match run (OPut (sname, k, v, n_of_int 1, false, false)) with
         | RPut po ->
           let after = (match tree_of () with Some tr -> leaves_of tr | None -> []) in
           let changed = List.length (List.filter (fun l ->
               List.exists (fun l' -> N.eqb l'.lf_id l.lf_id && not (N.eqb l'.lf_ver l.lf_ver)) after) before) in
           let split = (match po.po_info with Some i -> i.pi_created <> None | None -> false) in
           printf_m "putinfo %s existed=%s changed=%d split=%s ok=1%s" (status_s po.po_status) (b2s existed) changed (b2s split) (allocs_line !prev_st !st true "put" (List.length po.po_retired))
         | RStatus stt -> printf_m "putinfo %s existed=0 changed=0 split=0 ok=1 aa=0 af=0" (status_s stt)
         | _ -> print_endline "putinfo STUCK")
      | "iscan" :: s :: l :: le :: r :: re :: rtl :: _ ->
        let sname = bytes_of_hex s in
        let (lk, ln) = key_tok l and (rk, rn) = key_tok r in
        let a = { ia_l = lk; ia_le = ep_of le; ia_r = rk; ia_re = ep_of re; ia_rtl = (rtl = "1"); ia_lnull = ln; ia_rnull = rn } in
        let sa = { sa_l = lk; sa_le = ep_of le; sa_r = rk; sa_re = ep_of re; sa_max = O; sa_rtl = false; sa_lnull = ln; sa_rnull = rn } in
        (* the specification: the interval's entries, descending for right-to-left *)
        (match spec_exec !sp (OScan (sname, sa)) with
         | (_, AScan (stt, ts)) ->
           let ts = if rtl = "1" then List.rev ts else ts in
           Stdlib.print_endline (Printf.sprintf "S iscan %s n=%d t=[%s ]" (status_s stt) (List.length ts)
                                   (String.concat "" (List.map (fun (k, v) -> " " ^ hex_of_bytes k ^ ":" ^ aval_s v ()) ts)))
         | (_, AStatus stt) -> Stdlib.print_endline (Printf.sprintf "S iscan %s n=0 t=[ ]" (status_s stt))
         | _ -> ());
        (match find_storage !st sname with
         | Some (Some sid) ->
           (match trees_get !st.sy_trees sid with
            | Some tr ->
              (match iscan_all tr a with
               | Some ((stt, kv), cbs) ->
                 printf_m "iscan %s n=%d t=[%s ] end=%s cb=[%s ]" (status_s stt) (List.length kv)
                   (String.concat "" (List.map (fun (k, v) -> " " ^ hex_of_bytes k ^ ":" ^ value_s v) kv))
                   (if stt = St_OK then "OK_SCAN_END" else status_s stt)
                   (String.concat "" (List.map (fun (id, ver) -> " " ^ id_s id ^ ":" ^ hex_of_n ver) cbs))
               | None -> print_endline "iscan STUCK")
            | None -> print_endline "iscan STUCK")
         | _ -> print_endline "iscan WARN_STORAGE_NOT_EXIST n=0 t=[ ] end=WARN_STORAGE_NOT_EXIST cb=[ ]")
      | "dump" :: s :: _ ->
        (match find_storage !st (bytes_of_hex s) with
         | Some (Some sid) ->
           (match trees_get !st.sy_trees sid with
            | Some tr ->
              let b = Buffer.create 1024 in
              Buffer.add_string b "dump\n";
              if not tr.t_null then dump_tree tr b;
              Buffer.add_string b "enddump";
              print_endline (Buffer.contents b)
            | None -> print_endline "dump STUCK")
         | _ -> print_endline "dump none")
      | "mem" :: s :: _ ->
        (match find_storage !st (bytes_of_hex s) with
         | Some (Some sid) ->
           (match trees_get !st.sy_trees sid with
            | Some tr ->
              let show l = "mem [" ^ String.concat "" (List.map (fun ((n, u), r) ->
                  Printf.sprintf " %d:%d:%d" (int_of_n n) (int_of_n u) (int_of_n r)) l) ^ " ]" in
              Stdlib.print_endline ("S " ^ show (shape_stats tr));
              print_endline (show (mem_usage tr))
            | None -> print_endline "mem STUCK")
         | _ -> print_endline "mem [ ]")
      | _ -> print_endline "?") lines
