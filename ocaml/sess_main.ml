(* sess_main: replays the enter/leave accesses of a real scheduler-controlled
   run (harness/epoch_driver.cpp log) on the extracted SessionDefs model and
   evaluates the property oracle on the history (distinct tokens, capacity).
   prints ACCEPT ... | REJECT <seq> <why> | VIOLATION <why> *)
open Ykmodel
open Yutil

type item = H of int * string list | E of int * int * int * int * int * n * int  (* seq tid kind obj addr val ok *)

let () =
  let lines = read_lines Sys.argv.(1) in
  let base = ref 0 and sz = ref 1 and n = ref 0 and nworkers = ref 0 in
  let items = ref [] in
  List.iter (fun l ->
      match split_ws l with
      | "TABLE" :: b :: s :: c :: _ -> base := int_of_string ("0x" ^ b); sz := int_of_string s; n := int_of_string c
      | "ROLES" :: w :: _ -> nworkers := int_of_string (List.nth (String.split_on_char '=' w) 1)
      | "H" :: seq :: rest -> items := H (int_of_string seq, rest) :: !items
      | "E" :: seq :: tid :: kind :: obj :: addr :: v :: ok :: _ ->
        items := E (int_of_string seq, int_of_string tid, int_of_string kind, int_of_string obj,
                    int_of_string ("0x" ^ addr), n_of_hex v, int_of_string ok) :: !items
      | _ -> ()) lines;
  let key = function H (s, _) -> s | E (s, _, _, _, _, _, _) -> s in
  let items = List.sort (fun a b -> compare (key a) (key b)) !items in
  let nn = nat_of_int !n in
  let slot_of a = let d = a - !base in if d >= 0 && d < !n * !sz then Some (d / !sz) else None in
  let st = ref sinit in
  let steps = ref 0 in
  let open_tokens : (int, int) Hashtbl.t = Hashtbl.create 8 in  (* worker -> slot *)
  let maxopen = ref 0 and enters = ref 0 and fulls = ref 0 in
  let begins : (int, bool) Hashtbl.t = Hashtbl.create 8 in   (* slot -> begin epoch currently non-zero *)
  let begin_val : (int, int) Hashtbl.t = Hashtbl.create 8 in  (* slot -> published begin epoch *)
  let cur_epoch = ref (-1) in
  (* counted = the epoch cannot run away from an open session: while a session with begin epoch b is open the global
     epoch is b or b + 1 (the epoch thread advances only when every open session has caught up) *)
  let check_epoch_gap seq =
    if !cur_epoch >= 0 then
      Hashtbl.iter (fun w i ->
          match Hashtbl.find_opt begin_val i with
          | Some b when b <> 0 && !cur_epoch - b > 1 ->
            Printf.printf "VIOLATION open session of worker %d (slot %d) has begin epoch %d while the global epoch is %d: it was not counted while the epoch advanced (seq %d)\n" w i b !cur_epoch seq;
            exit 0
          | _ -> ()) open_tokens in
  let check_counted seq =
    Hashtbl.iter (fun w i ->
        if not (try Hashtbl.find begins i with Not_found -> false) then begin
          Printf.printf "VIOLATION open session of worker %d (slot %d) has begin epoch 0: not counted by the reclamation protocol (seq %d)\n" w i seq;
          exit 0 end) open_tokens in
  let exception Rej of int * string in
  let rejected = ref None in
  (* after the first rejection the model state is void: keep evaluating the property oracle on the rest of the log *)
  let apply seq e =
    if !rejected = None then
      match sstep nn !st e with
      | Some s' -> st := s'; incr steps
      | None -> rejected := Some (seq, "model cannot take the step") in
  (try
     List.iter (fun it ->
         match it with
         | H (seq, "call" :: w :: "enter" :: _) -> apply seq (EnterCall (nat_of_int (int_of_string w)))
         | H (seq, "ret" :: w :: "enter" :: tok :: _) ->
           let w = int_of_string w in
           if tok = "FULL" then begin incr fulls; apply seq (EnterRet (nat_of_int w, None)) end
           else begin
             incr enters;
             (match slot_of (int_of_string ("0x" ^ tok)) with
              | Some i ->
                (* property oracle, independent of the model *)
                Hashtbl.iter (fun w' i' -> if i' = i && w' <> w then begin
                    Printf.printf "VIOLATION token of slot %d handed to workers %d and %d at the same time (seq %d)\n" i w' w seq; exit 0 end) open_tokens;
                Hashtbl.replace open_tokens w i;
                if Hashtbl.length open_tokens > !n then begin
                  Printf.printf "VIOLATION more than %d sessions open (seq %d)\n" !n seq; exit 0 end;
                maxopen := max !maxopen (Hashtbl.length open_tokens);
                check_counted seq;
                check_epoch_gap seq;
                apply seq (EnterRet (nat_of_int w, Some (nat_of_int i)))
              | None -> raise (Rej (seq, "token outside the table")))
           end
         | H (seq, "call" :: w :: "leave" :: tok :: _) ->
           let w = int_of_string w in
           Hashtbl.remove open_tokens w;
           (match slot_of (int_of_string ("0x" ^ tok)) with
            | Some i -> apply seq (LeaveCall (nat_of_int w, nat_of_int i))
            | None -> raise (Rej (seq, "token outside the table")))
         | H _ -> ()
         | E (seq, _, kind, 7, _, v, ok) when ok >= 0 && (kind = 1 || kind = 7) ->
           (* the global epoch was written (epoch thread) *)
           cur_epoch := int_of_n v;
           check_epoch_gap seq
         | E (seq, tid, kind, obj, addr, v, ok) when tid >= 0 && tid < !nworkers && ok >= 0 ->
           let t = nat_of_int tid in
           (match obj, kind, slot_of addr with
            | 5, 0, Some i ->   (* running load *)
              (match (!st).pc t with
               | TProbe _ -> apply seq (LoadRunning (t, nat_of_int i, v <> N0))
               | _ -> ())
            | 5, 2, Some i -> apply seq (CasRunning (t, nat_of_int i, ok = 1))
            | 6, 1, Some i ->
              Hashtbl.replace begins i (v <> N0);
              Hashtbl.replace begin_val i (int_of_n v);
              check_epoch_gap seq;
              check_counted seq;
              if v = N0 then apply seq (ClearBegin (t, nat_of_int i))
              else apply seq (StoreBegin (t, nat_of_int i, v))
            | 5, 1, Some i -> if v = N0 then apply seq (ClearRunning (t, nat_of_int i))
            | _ -> ())
         | E _ -> ()) items;
     (match !rejected with
      | None -> Printf.printf "ACCEPT model_steps=%d enters=%d full=%d max_open=%d capacity=%d\n" !steps !enters !fulls !maxopen !n
      | Some (s, why) -> Printf.printf "REJECT %d %s\n" s why)
   with Rej (s, why) -> Printf.printf "REJECT %d %s\n" s why)
