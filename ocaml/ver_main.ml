(* ver_main: trace monitor for version words (C17, tie T3).  Input: the version-word accesses of real
   scheduler-controlled runs, one run per "R" block:
     R
     S <addr> <tid> <hexval>     plain store (node construction / init / set_body): resets the word
     L <addr> <tid> <hexval>     successful CAS of node_version64::lock
     C <addr> <tid> <hexval>     any other successful CAS on a version word
     O <addr> <tid> <hexval>     a load (used to learn words written before logging started)
   Every L / C must be accepted by the extracted VersionDefs.ver_write_ok on the word that is current at that
   instant; lock ownership is tracked: a held lock is released only by its holder.
   Output: one line per run, "OK <nwrites>" or "BAD <why>". *)
open Ykmodel
open Yutil

let () =
  let lines = read_lines Sys.argv.(1) in
  let cur : (string, n) Hashtbl.t = Hashtbl.create 64 in
  let owner : (string, string) Hashtbl.t = Hashtbl.create 64 in
  let bad = ref None and nw = ref 0 and started = ref false in
  let flush () =
    if !started then
      (match !bad with
       | None -> Printf.printf "OK %d\n" !nw
       | Some s -> Printf.printf "BAD %s\n" s) in
  let fail s = if !bad = None then bad := Some s in
  List.iter (fun l ->
      match split_ws l with
      | ["R"] -> flush (); Hashtbl.reset cur; Hashtbl.reset owner; bad := None; nw := 0; started := true
      | [k; addr; tid; hv] ->
        let v = n_of_hex hv in
        (match k with
         | "S" ->
           Hashtbl.replace cur addr v;
           if get_locked v then Hashtbl.replace owner addr tid else Hashtbl.remove owner addr
         | "O" -> if not (Hashtbl.mem cur addr) then Hashtbl.replace cur addr v
         | "L" | "C" ->
           incr nw;
           (match Hashtbl.find_opt cur addr with
            | None -> ()
            | Some c ->
              let is_lock = (k = "L") in
              if not (ver_write_ok c v is_lock) then
                fail (Printf.sprintf "thread %s installs %s on version word %s whose current value is %s: not %s of the current word"
                        tid (hex_of_n v) addr (hex_of_n c)
                        (if is_lock then "a lock acquisition on a free lock" else "unlock / inc_vinsert_delete / a flag setter"))
              else if (not is_lock) && get_locked c && not (get_locked v) then
                (match Hashtbl.find_opt owner addr with
                 | Some o when o <> tid ->
                   fail (Printf.sprintf "thread %s releases the lock of word %s held by thread %s" tid addr o)
                 | _ -> ()));
           Hashtbl.replace cur addr v;
           if k = "L" then Hashtbl.replace owner addr tid
           else if not (get_locked v) then Hashtbl.remove owner addr
         | _ -> ())
      | _ -> ()) lines;
  flush ()
