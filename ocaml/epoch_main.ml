(* epoch_main: replays the event log of a real, scheduler-controlled run of the
   reclamation protocol (harness/epoch_driver.cpp) on the extracted Coq model
   EpochDefs.  Raw accesses are mapped to model events using the model state
   (the mapping is the trace abstraction; it is part of the trusted base),
   every observed value is compared with the model's, and after every step the
   safety predicate [safe_obj] is evaluated for the objects seen so far.

   usage: epoch_main <log> <repaired:0|1>
   prints ACCEPT ... | REJECT <raw index> <why> | UNSAFE <object> ... *)
open Ykmodel
open Yutil

type raw = { step : int; tid : int; kind : int; obj : int; addr : int; v : n; ok : int }

let k_load = 0 and k_store = 1 and k_cas = 2 and k_retire = 5 and k_reclaim = 6 and k_rmw = 7
let o_running = 5 and o_begin = 6 and o_epoch = 7 and o_gc_epoch = 8 and o_gc_queue = 12 and o_end = 13

exception Reject of int * string

let () =
  let lines = read_lines Sys.argv.(1) in
  let repaired = Sys.argv.(2) = "1" in
  let base = ref 0 and sz = ref 1 and n = ref 0 in
  let nworkers = ref 0 and t_epoch = ref (-1) and t_gc = ref (-1) in
  let evs = ref [] in
  List.iter (fun l ->
      match split_ws l with
      | "TABLE" :: b :: s :: c :: _ -> base := int_of_string ("0x" ^ b); sz := int_of_string s; n := int_of_string c
      | "ROLES" :: w :: e :: g :: _ ->
        let num s = int_of_string (List.nth (String.split_on_char '=' s) 1) in
        nworkers := num w; t_epoch := num e; t_gc := num g
      | "E" :: st :: tid :: kind :: obj :: addr :: v :: ok :: _ ->
        evs := { step = int_of_string st; tid = int_of_string tid; kind = int_of_string kind;
                 obj = int_of_string obj; addr = int_of_string ("0x" ^ addr); v = n_of_hex v;
                 ok = int_of_string ok } :: !evs
      | _ -> ()) lines;
  let evs = Array.of_list (List.rev !evs) in
  let nn = nat_of_int !n in
  let slot_of a = let d = a - !base in if d >= 0 && d < !n * !sz then Some (d / !sz) else None in
  let st = ref init_st in
  let msteps = ref 0 in
  let objs : (int, int) Hashtbl.t = Hashtbl.create 64 in   (* ptr -> current object number *)
  let next_obj = ref 0 in
  let owner : (int, int) Hashtbl.t = Hashtbl.create 8 in   (* worker tid -> slot *)
  let frees = ref 0 in
  let stopped = ref false in
  let apply idx (e : ev) =
    match step repaired nn !st e with
    | Some s' -> st := s'; incr msteps
    | None -> raise (Reject (idx, "model cannot take the step")) in
  let neq a b = not (N.eqb a b) in
  let check_safe idx =
    Hashtbl.iter (fun _ o ->
        if not (safe_obj !st (nat_of_int o)) then begin
          Printf.printf "UNSAFE object %d at raw event %d: freed while a session that was active at its retirement is still active (or freed twice)\n" o idx;
          exit 0 end) objs in
  (try
     Array.iteri (fun idx r ->
         if !stopped then ()
         else if r.obj = o_end && r.kind = k_store then stopped := true
         else if r.tid >= 0 && r.tid < !nworkers then begin
           (* ---- worker *)
           if r.ok >= 0 then begin
             if r.obj = o_running && r.kind = k_cas && r.ok = 1 then begin
               match slot_of r.addr with
               | Some i -> Hashtbl.replace owner r.tid i; apply idx (Claim (nat_of_int i))
               | None -> raise (Reject (idx, "CAS on an unknown slot"))
             end else if r.obj = o_epoch && r.kind = k_load then begin
               match Hashtbl.find_opt owner r.tid with
               | Some i ->
                 let sl = !st.slots (nat_of_int i) in
                 (match sl.ss with
                  | SClaimed ->
                    if neq r.v !st.gE then raise (Reject (idx, "epoch value read differs from the model"));
                    apply idx (RdE (nat_of_int i))
                  | SPub _ ->
                    if neq r.v !st.gE then raise (Reject (idx, "epoch value re-read differs from the model"));
                    apply idx (Recheck (nat_of_int i))
                  | _ -> ())
               | None -> ()
             end else if r.obj = o_begin && r.kind = k_store then begin
               match slot_of r.addr with
               | Some i ->
                 if r.v = N0 then apply idx (Leave1 (nat_of_int i))
                 else begin
                   (match (!st.slots (nat_of_int i)).ss with
                    | SRead e -> if neq e r.v then raise (Reject (idx, "published begin epoch differs from the epoch read"))
                    | _ -> ());
                   apply idx (PubB (nat_of_int i));
                   if not repaired then apply idx (Confirm (nat_of_int i))
                 end
               | None -> raise (Reject (idx, "begin-epoch store outside the table"))
             end else if r.obj = o_running && r.kind = k_store && r.v = N0 then begin
               match slot_of r.addr with
               | Some i -> apply idx (Leave2 (nat_of_int i)); Hashtbl.remove owner r.tid
               | None -> ()
             end else if r.kind = k_retire then begin
               match Hashtbl.find_opt owner r.tid with
               | Some i ->
                 let o = !next_obj in
                 incr next_obj;
                 Hashtbl.replace objs r.addr o;
                 if neq r.v (!st.slots (nat_of_int i)).sbegin
                 then raise (Reject (idx, "retire tag differs from the session's begin epoch in the model"));
                 apply idx (Retire (nat_of_int i, nat_of_int r.ok, nat_of_int o))
               | None -> raise (Reject (idx, "retire outside a session"))
             end
           end
         end else if r.tid = !t_epoch then begin
           if r.ok >= 0 then begin
             if r.obj = o_epoch && r.kind = k_load then begin
               match !st.ept with
               | ESleep ->
                 if neq r.v !st.gE then raise (Reject (idx, "epoch thread: epoch value differs"));
                 apply idx EStart
               | _ -> ()
             end else if r.obj = o_begin && r.kind = k_load then begin
               let j = (match slot_of r.addr with Some j -> j | None -> raise (Reject (idx, "begin load outside table"))) in
               if neq r.v (!st.slots (nat_of_int j)).sbegin
               then raise (Reject (idx, "epoch thread: begin epoch read differs from the model"));
               (match !st.ept with
                | EVerify (_, j') ->
                  if int_of_nat j' <> j then raise (Reject (idx, "verify scan out of order"));
                  apply idx EVer
                | EMin (j', _) ->
                  if int_of_nat j' <> j then raise (Reject (idx, "min scan out of order"));
                  apply idx EMinStep
                | _ -> raise (Reject (idx, "epoch thread reads a begin epoch outside its scans")))
             end else if r.obj = o_epoch && r.kind = k_rmw then begin
               (match !st.ept with
                | EVerify (_, j') when int_of_nat j' = !n -> apply idx EVer
                | _ -> ());
               apply idx EIncr;
               if neq r.v !st.gE then raise (Reject (idx, "epoch after increment differs"))
             end else if r.obj = o_gc_epoch && r.kind = k_store then begin
               (match !st.ept with
                | EMin (j', _) when int_of_nat j' = !n -> apply idx EMinStep
                | _ -> ());
               (match !st.ept with
                | EPub v -> if neq v r.v then raise (Reject (idx, "published gc epoch differs from the model's"))
                | _ -> ());
               apply idx EPublish
             end
           end
         end else if r.tid = !t_gc then begin
           if r.obj = o_gc_epoch && r.kind = k_load && r.ok >= 0 then begin
             if neq r.v !st.gG then raise (Reject (idx, "gc thread: gc epoch read differs from the model"));
             apply idx GStart;
             apply idx GCacheStep;
             check_safe idx
           end else if r.obj = o_gc_queue && r.ok = -1 && (r.kind = k_load || r.kind = k_rmw) then begin
             match !st.gct with
             | GLoop (c, _) ->
               let q = !st.queue c in
               if (r.kind = k_load && q = []) || (r.kind = k_rmw && q <> []) then begin
                 apply idx GLoopStep; check_safe idx;
                 (* the emptiness test that follows a pop has no scheduling point of its own *)
                 (match !st.gct with
                  | GLoop (c', _) when r.kind = k_rmw && !st.queue c' = [] -> apply idx GLoopStep
                  | _ -> ())
               end
             | _ -> ()
           end else if r.kind = k_reclaim && r.ok >= 0 then begin
             incr frees;
             match Hashtbl.find_opt objs r.addr with
             | Some o ->
               (match !st.ost (nat_of_int o) with
                | Freed -> ()
                | _ -> raise (Reject (idx, Printf.sprintf "object %d reclaimed by the code but not freed in the model" o)))
             | None -> ()   (* retired before the controlled run started *)
           end
         end) evs;
     Printf.printf "ACCEPT raw=%d model_steps=%d objects=%d reclaims=%d\n" (Array.length evs) !msteps !next_obj !frees
   with Reject (i, why) ->
     let r = evs.(i) in
     Printf.printf "REJECT %d tid=%d kind=%d obj=%d val=%s: %s\n" i r.tid r.kind r.obj (hex_of_n r.v) why)
