(* chain_main: behavioural inclusion of real multi-border histories in the proven model ChainDefs
   (a forward scan moving along the leaf chain of one layer against inserts, removes, splits and unlinks).

   Input, one history per line, items separated by " ; ":
     C <lo>:<k>,<k>,...|<lo>:<k>,...          the leaf chain after preparation (numbers, hex; from the driver)
     inv <tid> put|uput <k> | rem <k> | get <k> | scan <l> <r|inf> [<max> <rtl>]
     res <tid> ok | unique | notfound | present | notexist | keys:<k>,<k>,...
     reval <tid> 0|1      (after all operations: did the re-validation of the pairs a scan of <tid> recorded find one stale?)
   in the observed total order.  The checker searches the interleavings of the model's steps
   (ChainLimDefs.lstep: the repaired scanner with size limit and right-to-left mode; writers = ChainDefs.cstep) that respect the observed invocation / response order for one that
   reproduces every observed result: ACCEPT / REJECT (the real code showed a behaviour the model cannot
   produce) / SKIP (history outside the model: two scans at once) / UNKNOWN (search budget exhausted). *)
open Ykmodel
open Yutil

type op = Put of n * bool | Rem of n | Get of n | Scan of n * n option * int * bool
type obs = Inv of int * op | Res of int * string | Reval of int * bool

let num = n_of_hex
let keys_s (l : n list) = String.concat "," (List.map hex_of_n l)

let parse_chain (s : string) : cnode list =
  let parts = String.split_on_char '|' s in
  let n = List.length parts in
  List.mapi (fun i p ->
      match String.split_on_char ':' p with
      | [lo; ks] ->
        let keys = if ks = "" then [] else List.map num (String.split_on_char ',' ks) in
        { cn_id = n_of_int i; cn_lo = num lo; cn_keys = keys;
          cn_next = (if i + 1 < n then Some (n_of_int (i + 1)) else None); cn_ver = cver0 }
      | _ -> failwith ("chain_main: bad chain item " ^ p)) parts

let parse_line (l : string) : cnode list * obs list =
  let parts = List.map String.trim (String.split_on_char ';' l) in
  let chain = ref [] and evs = ref [] in
  List.iter (fun p ->
      match split_ws p with
      | ["C"; c] -> chain := parse_chain c
      | "inv" :: t :: "put" :: k :: _ -> evs := Inv (int_of_string t, Put (num k, false)) :: !evs
      | "inv" :: t :: "uput" :: k :: _ -> evs := Inv (int_of_string t, Put (num k, true)) :: !evs
      | "inv" :: t :: "rem" :: k :: _ -> evs := Inv (int_of_string t, Rem (num k)) :: !evs
      | "inv" :: t :: "get" :: k :: _ -> evs := Inv (int_of_string t, Get (num k)) :: !evs
      | "inv" :: t :: "scan" :: l :: r :: rest ->
        let mx, rtl = (match rest with m :: d :: _ -> (int_of_string m, d = "1") | _ -> (0, false)) in
        evs := Inv (int_of_string t, Scan (num l, (if r = "inf" then None else Some (num r)), mx, rtl)) :: !evs
      | "res" :: t :: r :: _ -> evs := Res (int_of_string t, r) :: !evs
      | "reval" :: t :: st :: _ -> evs := Reval (int_of_string t, st = "1") :: !evs
      | [] -> ()
      | _ -> failwith ("chain_main: bad item " ^ p)) parts;
  (!chain, List.rev !evs)

(* per-thread progress of the active operation *)
exception Outside

type phase =
  | Idle
  | P0 of op                    (* nothing done yet *)
  | PIns of n                   (* put: split done, insert pending *)
  | PUnlink of n                (* rem: node [id] emptied, unlink pending *)
  | PScan                       (* scan: between EBegin and CDone *)
  | Fin of string               (* finished, result to be matched by the observed response *)

let set_scanner (s : lstate) (sc : lscan) : lstate = { s with l_scan = sc }
let last_nvset : (n * cver) list ref = ref []

(* all model successors of one step of thread t in phase ph: (state, phase) list *)
let succs (s : lstate) (ph : phase) : (lstate * phase) list =
  let st e = lstep s (LW e) in
  let nodes = s.l_c.c_nodes in
  match ph with
  | Idle | Fin _ -> []
  | P0 (Put (k, uniq)) ->
    if mem k (all_keys nodes) then [(s, Fin (if uniq then "unique" else "ok"))]
    else (match cover k nodes with
        | None -> []
        | Some nd ->
          if List.length nd.cn_keys >= 15 then
            List.filter_map (fun m -> match st (ESplit (nd.cn_id, m)) with
                | Some s' -> Some (s', PIns k) | None -> None) nd.cn_keys
          else (match st (EIns k) with Some s' -> [(s', Fin "ok")] | None -> []))
  | PIns k -> (match st (EIns k) with Some s' -> [(s', Fin "ok")] | None -> [(s, Fin "ok")])
  | P0 (Rem k) ->
    if not (mem k (all_keys nodes)) then [(s, Fin "notfound")]
    else (match cover k nodes, st (ERem k) with
        | Some nd, Some s' ->
          (match find_node nd.cn_id s'.l_c.c_nodes with
           | Some nd' when nd'.cn_keys = [] ->
             (* the layer's only border was emptied: the code keeps it as the layer root and flags it deleted until the
                next insert; that protocol is outside the chain model (it is covered by ScanDefs / the emptied-tree
                scenarios), so such a history is not judged here *)
             if List.length (List.filter live s'.l_c.c_nodes) <= 1 then raise Outside
             else [(s', PUnlink nd.cn_id)]
           | _ -> [(s', Fin "ok")])
        | _ -> [])
  | PUnlink id ->
    let a = List.filter_map (fun dir -> match st (EUnlink (id, dir)) with
        | Some s' -> Some (s', Fin "ok") | None -> None) [true; false] in
    if a = [] then [(s, Fin "ok")] else a
  | P0 (Get k) -> [(s, Fin (if mem k (all_keys nodes) then "present" else "notexist"))]
  | P0 (Scan (l, r, mx, rtl)) ->
    (match s.l_scan.ls_pc with
     | CIdle -> (match lstep s (LBegin (l, r, nat_of_int mx, rtl)) with Some s' -> [(s', PScan)] | None -> [])
     | _ -> [])
  | PScan ->
    (match s.l_scan.ls_pc with
     | CRead -> (match lstep s LRead with Some s' -> [(s', PScan)] | None -> [])
     | CNextVer -> (match lstep s LNextVer with Some s' -> [(s', PScan)] | None -> [])
     | CValidate -> (match lstep s LValidate with Some s' -> [(s', PScan)] | None -> [])
     | CDone ->
       last_nvset := s.l_scan.ls_nvset;
       [(set_scanner s idle_lscan, Fin ("keys:" ^ keys_s s.l_scan.ls_res))]
     | CIdle -> [])

exception Found
exception Budget

let check (chain : cnode list) (evs : obs list) : string * int =
  let evs = Array.of_list evs in
  let nthreads = Array.fold_left (fun m e -> match e with Inv (t, _) | Res (t, _) | Reval (t, _) -> max m (t + 1)) 0 evs in
  (* SKIP: two scans in flight at the same time *)
  let scanning = ref 0 and skip = ref false in
  let sc_of = Array.make (max nthreads 1) false in
  Array.iter (function
      | Inv (t, Scan _) -> incr scanning; sc_of.(t) <- true; if !scanning > 1 then skip := true
      | Res (t, _) -> if sc_of.(t) then (decr scanning; sc_of.(t) <- false)
      | _ -> ()) evs;
  if !skip || chain = [] then ("SKIP", 0) else begin
    let c0 = { c_nodes = chain; c_fresh = n_of_int (List.length chain); c_scan = idle_scan; c_stable = []; c_ever = [] } in
    let s0 = { l_c = c0; l_scan = idle_lscan; l_stable = []; l_ever = [] } in
    let seen = Hashtbl.create 4096 in
    let count = ref 0 in
    (* recs: the (node, version) sets recorded by the completed scans, per thread in order *)
    let rec dfs (pos : int) (s : lstate) (ph : phase array) (recs : (int * (n * cver) list) list) : unit =
      if pos = Array.length evs then raise Found;
      (* ghosts do not influence behaviour: drop them from the memo key *)
      let key = Marshal.to_string (pos, s.l_c.c_nodes, s.l_c.c_fresh, s.l_scan, ph, recs) [] in
      if not (Hashtbl.mem seen key) then begin
        Hashtbl.add seen key ();
        incr count;
        if !count > 400000 then raise Budget;
        (* consume the next observed event *)
        (match evs.(pos) with
         | Inv (t, o) ->
           if ph.(t) = Idle then begin
             let ph' = Array.copy ph in ph'.(t) <- P0 o; dfs (pos + 1) s ph' recs end
         | Res (t, r) ->
           (match ph.(t) with
            | Fin r' when r' = r -> let ph' = Array.copy ph in ph'.(t) <- Idle; dfs (pos + 1) s ph' recs
            | _ -> ())
         | Reval (t, stale) ->
           (* after every operation has completed: is a pair recorded by the (first not yet judged) scan of thread t
              stale in the model's final state?  must equal what the re-validation on the real tree found *)
           (match List.partition (fun (t', _) -> t' = t) recs with
            | (_, nv) :: more, others ->
              let model_stale = List.exists (fun (id, v) ->
                  match find_node id s.l_c.c_nodes with
                  | Some nd -> nd.cn_ver <> v
                  | None -> true) nv in
              if model_stale = stale then dfs (pos + 1) s ph (others @ more)
            | [], _ -> dfs (pos + 1) s ph recs));
        (* or let an active operation take a step *)
        for t = 0 to nthreads - 1 do
          List.iter (fun (s', p') ->
              let ph' = Array.copy ph in ph'.(t) <- p';
              let recs' = (match ph.(t), p' with
                  | PScan, Fin _ -> recs @ [(t, !last_nvset)]
                  | _ -> recs) in
              dfs pos s' ph' recs') (succs s ph.(t))
        done
      end in
    match dfs 0 s0 (Array.make (max nthreads 1) Idle) [] with
    | () -> ("REJECT", !count)
    | exception Found -> ("ACCEPT", !count)
    | exception Budget -> ("UNKNOWN", !count)
    | exception Outside -> ("SKIP", !count)
  end

let () =
  List.iter (fun l ->
      if String.trim l <> "" then begin
        let (chain, evs) = parse_line l in
        let (v, n) = check chain evs in
        Printf.printf "%s %d\n" v n
      end) (read_lines Sys.argv.(1))
