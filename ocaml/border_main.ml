(* border_main: behavioural inclusion of real histories in the proven model
   BorderDefs (one border node, point operations).

   Input (one history per line, produced by the orchestrator from a
   scheduler-controlled run of the real library on a single-border scenario):
     I <key> <val> ...                initial content (numbers, hex)
     then events in the observed total order:
     inv <tid> get|put|uput|rem <key> [<val>]
     res <tid> ok | val:<v> | notexist | notfound | unique
   separated by " ; ".
   The checker searches the model's interleavings (BStep anywhere, BInvoke /
   BReturn in the observed order with the observed results) for one that
   reproduces the history: ACCEPT, or REJECT when the real code showed a
   behaviour the model cannot produce.  Prints one verdict per line. *)
open Ykmodel
open Yutil

type obs = Inv of int * bop | Res of int * bres

let num = n_of_hex

let parse_line (l : string) : (n * n) list * obs list =
  let parts = List.map String.trim (String.split_on_char ';' l) in
  let init = ref [] and evs = ref [] in
  List.iter (fun p ->
      match split_ws p with
      | "I" :: rest ->
        let rec go = function k :: v :: r -> init := (num k, num v) :: !init; go r | _ -> () in go rest
      | "inv" :: t :: "get" :: k :: _ -> evs := Inv (int_of_string t, OpGet (num k)) :: !evs
      | "inv" :: t :: "put" :: k :: v :: _ -> evs := Inv (int_of_string t, OpPut (num k, num v)) :: !evs
      | "inv" :: t :: "uput" :: k :: v :: _ -> evs := Inv (int_of_string t, OpUput (num k, num v)) :: !evs
      | "inv" :: t :: "rem" :: k :: _ -> evs := Inv (int_of_string t, OpRem (num k)) :: !evs
      | "res" :: t :: r :: _ ->
        let r = (match String.split_on_char ':' r with
            | ["ok"] -> ROk | ["val"; v] -> ROkVal (num v) | ["notexist"] -> RNotExist
            | ["notfound"] -> RNotFound | ["unique"] -> RUnique | _ -> failwith "res") in
        evs := Res (int_of_string t, r) :: !evs
      | [] -> ()
      | _ -> failwith ("border_main: bad item " ^ p)) parts;
  (List.rev !init, List.rev !evs)

let pc_s (p : bpc) : string =
  let o = function None -> "-" | Some i -> string_of_int (int_of_nat i) in
  let l r = String.concat "," (List.map (fun x -> string_of_int (int_of_nat x)) r) in
  let rs = function ROk -> "ok" | ROkVal v -> "v" ^ hex_of_n v | RNotExist -> "ne" | RNotFound -> "nf" | RUnique -> "u" in
  match p with
  | PIdle -> "I" | PStable0 -> "S0" | PPerm v -> "P" ^ hex_of_n v
  | PSearch (v, r) -> "Se" ^ hex_of_n v ^ "[" ^ l r ^ "]"
  | PCheck1 (v, f) -> "C" ^ hex_of_n v ^ o f
  | PLoadLv (v, s) -> "L" ^ hex_of_n v ^ "." ^ string_of_int (int_of_nat s)
  | PFinal (v, s, w) -> "F" ^ hex_of_n v ^ "." ^ string_of_int (int_of_nat s) ^ "." ^ hex_of_n w
  | PRemFinal v -> "RF" ^ hex_of_n v
  | PLock (v, f) -> "K" ^ hex_of_n v ^ o f
  | PValidate (v, f) -> "V" ^ hex_of_n v ^ o f
  | PUnlockRetry -> "UR" | PRelook v -> "RL" ^ hex_of_n v | PInsDel -> "ID"
  | PStoreKey (s, r) -> Printf.sprintf "SK%d.%d" (int_of_nat s) (int_of_nat r)
  | PStoreLv (s, r) -> Printf.sprintf "SL%d.%d" (int_of_nat s) (int_of_nat r)
  | PStorePerm (s, r) -> Printf.sprintf "SP%d.%d" (int_of_nat s) (int_of_nat r)
  | PUnlockIns -> "UI" | POverwrite s -> "OW" ^ string_of_int (int_of_nat s)
  | PClear (s, r) -> Printf.sprintf "CL%d.%d" (int_of_nat s) (int_of_nat r)
  | PShrink r -> "SH" ^ string_of_int (int_of_nat r)
  | PUnlockPlain r -> "UP" ^ rs r | PDone r -> "D" ^ rs r

let key_of (nthreads : int) (s : bstate) (pos : int) : string =
  let b = Buffer.create 128 in
  Buffer.add_string b (string_of_int pos);
  Buffer.add_string b (if s.b_locked then "L" else "l");
  Buffer.add_string b (if s.b_insdel then "D" else "d");
  Buffer.add_string b (hex_of_n s.b_vins);
  List.iter (fun x -> Buffer.add_string b ("," ^ string_of_int (int_of_nat x))) s.b_perm;
  for i = 0 to 14 do
    let ni = nat_of_int i in
    Buffer.add_string b ("|" ^ hex_of_n (s.b_keys ni) ^ ":" ^ hex_of_n (s.b_lvs ni))
  done;
  for t = 0 to nthreads - 1 do
    Buffer.add_string b ("/" ^ pc_s (s.b_thr (nat_of_int t)).t_pc)
  done;
  Buffer.contents b

let check (init : (n * n) list) (evs : obs list) : bool * int =
  (* sequential setup: thread 0 of the model puts the initial content *)
  let st = ref binit in
  List.iter (fun (k, v) ->
      let t0 = nat_of_int 0 in
      (match bstep true !st (BInvoke (t0, OpPut (k, v))) with Some s -> st := s | None -> failwith "setup invoke");
      let rec go n = if n > 200 then failwith "setup loop" else
          match (!st.b_thr t0).t_pc with
          | PDone _ -> (match bstep true !st (BReturn t0) with Some s -> st := s | None -> failwith "setup ret")
          | _ -> (match bstep true !st (BStep t0) with Some s -> st := s; go (n + 1) | None -> failwith "setup step") in
      go 0) init;
  let evs = Array.of_list evs in
  let nthreads = 1 + Array.fold_left (fun m e -> match e with Inv (t, _) | Res (t, _) -> max m t) 0 evs in
  let seen = Hashtbl.create 4096 in
  let explored = ref 0 in
  let rec dfs (s : bstate) (pos : int) : bool =
    if pos = Array.length evs then true
    else begin
      let k = key_of nthreads s pos in
      if Hashtbl.mem seen k then false
      else begin
        Hashtbl.add seen k ();
        incr explored;
        if !explored > 2_000_000 then failwith "search budget";
        (* the next observed event *)
        let via_obs =
          (match evs.(pos) with
           | Inv (t, o) ->
             (match bstep true s (BInvoke (nat_of_int t, o)) with Some s' -> dfs s' (pos + 1) | None -> false)
           | Res (t, r) ->
             (match (s.b_thr (nat_of_int t)).t_pc with
              | PDone r' when r' = r ->
                (match bstep true s (BReturn (nat_of_int t)) with Some s' -> dfs s' (pos + 1) | None -> false)
              | _ -> false)) in
        via_obs ||
        (* or an internal step of some in-flight thread *)
        (let rec try_t t =
           if t >= nthreads then false
           else
             let th = s.b_thr (nat_of_int t) in
             (match th.t_op, th.t_pc with
              | Some _, PDone _ | None, _ -> try_t (t + 1)
              | Some _, _ ->
                (match bstep true s (BStep (nat_of_int t)) with
                 | Some s' -> (dfs s' pos) || try_t (t + 1)
                 | None -> try_t (t + 1))) in
         try_t 0)
      end
    end in
  let ok = dfs !st 0 in
  (ok, !explored)

let () =
  let lines = read_lines Sys.argv.(1) in
  List.iter (fun l ->
      if String.trim l <> "" then begin
        try
          let (init, evs) = parse_line l in
          let (ok, n) = check init evs in
          Printf.printf "%s states=%d\n" (if ok then "ACCEPT" else "REJECT") n
        with Failure m -> Printf.printf "ERROR %s\n" m
      end) lines
