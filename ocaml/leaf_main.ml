(* leaf_main: evaluates the extracted Coq model on the same case file the C++
   leaf driver ran, printing the same canonical lines.  With a second argument
   (the implementation's output file) it also evaluates the *property oracle*
   (the list-level / field-level specification the theorems are stated
   against) on the implementation's results and prints "ORACLE <lineno> <why>"
   for every case where the implementation violates it. *)
open Ykmodel

(* ---- N <-> hex ---------------------------------------------------------- *)
let rec pos_of_int (i : int) : positive =
  if i = 1 then XH
  else if i land 1 = 0 then XO (pos_of_int (i lsr 1))
  else XI (pos_of_int (i lsr 1))
let n_of_int i = if i = 0 then N0 else Npos (pos_of_int i)
let n16 = n_of_int 16
let n_of_hex (s : string) : n =
  let acc = ref N0 in
  String.iter (fun c ->
      let d = match c with
        | '0'..'9' -> Char.code c - 48
        | 'a'..'f' -> Char.code c - 87
        | 'A'..'F' -> Char.code c - 55
        | _ -> failwith ("bad hex " ^ s) in
      acc := N.add (N.mul !acc n16) (n_of_int d)) s;
  !acc
let rec int_of_pos = function
  | XH -> 1 | XO p -> 2 * int_of_pos p | XI p -> 2 * int_of_pos p + 1
let int_of_n = function N0 -> 0 | Npos p -> int_of_pos p
let hex_of_n (x : n) : string =
  let rec go x acc =
    match x with
    | N0 -> acc
    | _ -> let (q, r) = N.div_eucl x n16 in
      go q (String.make 1 "0123456789abcdef".[int_of_n r] ^ acc) in
  match x with N0 -> "0" | _ -> go x ""
let b2s b = if b then "1" else "0"
let opt_hex = function None -> "none" | Some x -> hex_of_n x
let rec nat_of_int i = if i = 0 then O else S (nat_of_int (i - 1))

let split_ws s = List.filter (fun x -> x <> "") (String.split_on_char ' ' (String.trim s))

let bytes_of_hex s =
  if s = "-" then [] else
    List.init (String.length s / 2) (fun i -> n_of_hex (String.sub s (2 * i) 2))

let rec take n l = if n = 0 then [] else match l with [] -> [] | x :: r -> x :: take (n - 1) r
let rec drop n l = if n = 0 then l else match l with [] -> [] | _ :: r -> drop (n - 1) r

let mk_t s l = { ks = s; kl = l }

(* lookup over entries in rank order: Some rank-of-hit / None *)
let lookup ents k =
  let rec go i = function
    | [] -> None
    | t :: r -> (match lookup_probe k t with Hit -> Some i | Stop -> None | Next -> go (i + 1) r) in
  go 0 ents
(* get_lv_of_without_lock: no break on success, keeps the last hit *)
let lookup_nolock ents k =
  let rec go i last = function
    | [] -> last
    | t :: r -> (match lookup_probe k t with
        | Hit -> go (i + 1) (Some i) r | Stop -> last | Next -> go (i + 1) last r) in
  go 0 None ents
let rank_if_insert ents k =
  let rec go i = function
    | [] -> i
    | t :: r -> if rank_probe k t then i else go (i + 1) r in
  go 0 ents
let route seps k =
  let rec go i = function
    | [] -> i
    | t :: r -> if route_probe k t then i else go (i + 1) r in
  go 0 seps
let iins_pos seps k =
  let rec go i = function
    | [] -> i
    | t :: r -> if iins_probe k t then i else go (i + 1) r in
  go 0 seps

let model_line (toks : string list) : string =
  match toks with
  | "perm" :: "insert" :: w :: r :: p :: _ ->
    hex_of_n (insert_rank (n_of_hex w) (n_of_hex r) (n_of_hex p)) ^ " st=1"   (* one word = one store *)
  | "perm" :: "delete" :: w :: r :: _ -> hex_of_n (delete_rank (n_of_hex w) (n_of_hex r)) ^ " st=1"
  | "perm" :: "empty" :: w :: _ -> hex_of_n (get_empty_slot (n_of_hex w))
  | "perm" :: "split" :: n :: _ -> hex_of_n (split_dest (n_of_hex n)) ^ " st=1"
  | "perm" :: "publish" :: n :: _ -> Printf.sprintf "pub=ok cnk=%d" (int_of_n (n_of_hex n) + 1)
  | "perm" :: "index" :: w :: r :: _ -> hex_of_n (get_index_of_rank (n_of_hex w) (n_of_hex r))
  | "perm" :: "cnk" :: w :: _ ->
    hex_of_n (get_cnk (n_of_hex w)) ^ " " ^ hex_of_n (get_lowest_key_pos (n_of_hex w))
  | "perm" :: "setcnk" :: w :: c :: _ -> hex_of_n (set_cnk (n_of_hex w) (n_of_hex c))
  | "ver" :: "decode" :: w :: _ ->
    let f = decode_version (n_of_hex w) in
    String.concat " " [hex_of_n f.f_vins; b2s f.f_locked; b2s f.f_insdel; b2s f.f_splitting;
                       hex_of_n f.f_vsplit; b2s f.f_deleted; b2s f.f_root; b2s f.f_border]
  | "ver" :: "set" :: w :: fld :: v :: _ ->
    let w = n_of_hex w and b = (v <> "0") in
    hex_of_n (match fld with
        | "locked" -> set_locked w b | "insdel" -> set_inserting_deleting w b
        | "splitting" -> set_splitting w b | "deleted" -> set_deleted w b
        | "root" -> set_root w b | "border" -> set_border w b
        | _ -> failwith "field")
  | "ver" :: "incv" :: w :: _ -> hex_of_n (inc_vinsert_delete (n_of_hex w))
  | "ver" :: "incs" :: w :: _ -> hex_of_n (inc_vsplit (n_of_hex w))
  | "ver" :: "unlock" :: w :: _ -> hex_of_n (unlock (n_of_hex w))
  | "ver" :: "lock" :: w :: _ -> opt_hex (try_lock (n_of_hex w))
  | "ver" :: "stable" :: w :: _ ->
    let w = n_of_hex w in
    if is_stable w then "1 " ^ hex_of_n w else "0 -"
  | "ver" :: "init" :: _ -> hex_of_n version_init
  | "key" :: "lt" :: s1 :: l1 :: s2 :: l2 :: _ ->
    let a = mk_t (n_of_hex s1) (n_of_hex l1) and b = mk_t (n_of_hex s2) (n_of_hex l2) in
    String.concat " " [b2s (kt_lt a b); b2s (kt_gt a b); b2s (kt_le a b); b2s (kt_ge a b); b2s (kt_eq a b)]
  | "key" :: "oftuple" :: hb :: _ ->
    let t = tuple_of_key (bytes_of_hex hb) in hex_of_n t.ks ^ " " ^ hex_of_n t.kl
  | "key" :: "border" :: n :: rest ->
    let n = int_of_n (n_of_hex n) in
    let rec ents i l = if i = 0 then ([], l) else
        match l with s :: ln :: r -> let (e, r') = ents (i - 1) r in (mk_t (n_of_hex s) (n_of_hex ln) :: e, r')
                   | _ -> failwith "border args" in
    let (es, r) = ents n rest in
    let k = (match r with s :: l :: _ -> mk_t (n_of_hex s) (n_of_hex l) | _ -> failwith "border key") in
    let lk = lookup es k in
    let lk2 = lookup_nolock es k in
    let first_zero = (match es with t :: _ -> t.kl = N0 | [] -> false) in
    let o = function None -> "none" | Some i -> hex_of_n (n_of_int i) in
    o lk ^ " " ^ o lk2 ^ " " ^
    (if lk = None && not (k.kl = N0 && n > 0 && first_zero)
     then hex_of_n (n_of_int (rank_if_insert es k)) else "-")
  | "key" :: "interior" :: n :: rest ->
    let n = int_of_n (n_of_hex n) in
    let rec ents i l = if i = 0 then ([], l) else
        match l with s :: ln :: r -> let (e, r') = ents (i - 1) r in (mk_t (n_of_hex s) (n_of_hex ln) :: e, r')
                   | _ -> failwith "interior args" in
    let (es, r) = ents n rest in
    let k = (match r with s :: l :: _ -> mk_t (n_of_hex s) (n_of_hex l) | _ -> failwith "interior key") in
    let ci = route es k in
    if n < 15 then
      let pos = iins_pos es k in
      String.concat " " [hex_of_n (n_of_int ci); hex_of_n (n_of_int (pos + 1)); hex_of_n (n_of_int (n + 1))]
    else hex_of_n (n_of_int ci) ^ " - -"
  | "val" :: "create" :: len :: al :: _ ->
    let len = n_of_hex len and al = n_of_hex al in
    let b = create_value_block len al in
    let h = hex_of_n in
    String.concat " " [h b.vb_alloc_size; h b.vb_alloc_align; h (vb_get_len b); h (vb_body_offset b);
                       h (vb_gc_size b); h (vb_gc_align b); "1"; "1"; "1"; "1"; "1";
                       h (vb_gc_size b); h (vb_gc_align b); "1"; "1"]
  | "val" :: "word" :: w :: _ ->
    let w = n_of_hex w in
    opt_hex (lv_get_next_layer w) ^ " " ^ opt_hex (lv_get_value w) ^ " " ^ b2s (is_value_ptr w)
  | "val" :: "inline" :: w :: _ ->
    let w = n_of_hex w in
    if not (is_value_ptr w) then String.concat " " [hex_of_n w; hex_of_n w; "8"; "0"]
    else hex_of_n w ^ " - - -"
  | _ -> "?"

(* ---- property oracles on the implementation's results ------------------- *)
let nlist_eq a b = List.length a = List.length b && List.for_all2 (fun x y -> N.eqb x y) a b

let oracle (toks : string list) (impl : string list) : string option =
  try
    match toks, impl with
    | "perm" :: ("insert" | "delete" | "split") :: _, [_; st] when st <> "st=1" ->
      Some "a permutation update was not published as a single word store"
    | "perm" :: "insert" :: w :: r :: p :: _, w' :: _ ->
      let w = n_of_hex w and r = n_of_hex r and p = n_of_hex p and w' = n_of_hex w' in
      if not (perm_validb w && N.ltb (get_cnk w) (n_of_int 15) && N.leb r (get_cnk w)
              && N.ltb p (n_of_int 15) && not (List.exists (fun x -> N.eqb x p) (perm_list w))) then None else
      if not (nlist_eq (perm_list w') (insert_at (N.to_nat r) p (perm_list w)))
      then Some "decode(insert_rank) <> insert_at"
      else if not (perm_validb w') then Some "insert_rank result not a valid permutation" else None
    | "perm" :: "delete" :: w :: r :: _, w' :: _ ->
      let w = n_of_hex w and r = n_of_hex r and w' = n_of_hex w' in
      if not (perm_validb w && N.ltb r (get_cnk w)) then None else
      if not (nlist_eq (perm_list w') (remove_at (N.to_nat r) (perm_list w)))
      then Some "decode(delete_rank) <> remove_at"
      else if not (perm_validb w') then Some "delete_rank result not a valid permutation" else None
    | "perm" :: "empty" :: w :: _, [s] ->
      let w = n_of_hex w and s = n_of_hex s in
      if not (perm_validb w) || not (N.ltb (get_cnk w) (n_of_int 15)) then None else
      if List.exists (fun x -> N.eqb x s) (perm_list w) then Some "get_empty_slot returned a slot in use"
      else if not (N.ltb s (n_of_int 15)) then Some "get_empty_slot out of range" else None
    | "perm" :: "publish" :: _, p :: _ when p <> "pub=ok" ->
      Some "the permutation word listed a slot before its entry (link_or_value word) was written"
    | "perm" :: "split" :: n :: _, w' :: _ ->
      let n = int_of_n (n_of_hex n) and w' = n_of_hex w' in
      if not (nlist_eq (perm_list w') (List.init n n_of_int)) then Some "split_dest not the identity" else None
    | "perm" :: "index" :: w :: r :: _, [s] ->
      let w = n_of_hex w and r = int_of_n (n_of_hex r) and s = n_of_hex s in
      let l = perm_list w in
      if r < List.length l && not (N.eqb (List.nth l r) s) then Some "get_index_of_rank <> nth" else None
    | "ver" :: "unlock" :: w :: _, [w'] ->
      let f = decode_version (n_of_hex w) and g = decode_version (n_of_hex w') in
      let p29 = n_of_hex "20000000" in
      let inc x = snd (N.div_eucl (N.add x (n_of_int 1)) p29) in
      let want_vi = if f.f_insdel then inc f.f_vins else f.f_vins in
      let want_vs = if f.f_splitting then inc f.f_vsplit else f.f_vsplit in
      if g.f_locked || g.f_insdel || g.f_splitting then Some "unlock left lock/dirty bit"
      else if not (N.eqb g.f_vins want_vi) then Some "unlock: insert counter wrong"
      else if not (N.eqb g.f_vsplit want_vs) then Some "unlock: split counter wrong"
      else if g.f_deleted <> f.f_deleted || g.f_root <> f.f_root || g.f_border <> f.f_border
      then Some "unlock changed another field" else None
    | "ver" :: "stable" :: w :: _, [ok; _] ->
      let f = decode_version (n_of_hex w) in
      if ok = "1" && (f.f_locked || f.f_insdel || f.f_splitting) then Some "stable version while locked/dirty" else None
    | "key" :: "lt" :: s1 :: l1 :: s2 :: l2 :: _, lt :: gt :: le :: ge :: eq :: _ ->
      let a = mk_t (n_of_hex s1) (n_of_hex l1) and b = mk_t (n_of_hex s2) (n_of_hex l2) in
      if not (kt_wf a && kt_wf b) then None else
        let c = canon_lt a b and c' = canon_lt b a in
        let e = N.eqb a.ks b.ks && N.eqb a.kl b.kl in
        if lt <> b2s c then Some "operator< disagrees with the canonical order"
        else if gt <> b2s c' then Some "operator> disagrees"
        else if le <> b2s (not c') then Some "operator<= disagrees"
        else if ge <> b2s (not c) then Some "operator>= disagrees"
        else if eq <> b2s e then Some "operator== disagrees" else None
    | "key" :: "border" :: n :: rest, pos :: pos2 :: rk :: _ ->
      let n = int_of_n (n_of_hex n) in
      let rec ents i l = if i = 0 then ([], l) else
          match l with s :: ln :: r -> let (e, r') = ents (i - 1) r in (mk_t (n_of_hex s) (n_of_hex ln) :: e, r')
                     | _ -> failwith "border args" in
      let (es, r) = ents n rest in
      let k = (match r with s :: l :: _ -> mk_t (n_of_hex s) (n_of_hex l) | _ -> failwith "border key") in
      let rec sorted = function a :: (b :: _ as t) -> canon_lt a b && sorted t | _ -> true in
      if not (List.for_all kt_wf es && kt_wf k && sorted es) then None else
        let same a b = N.eqb a.ks b.ks && N.eqb a.kl b.kl in
        let rec idx i = function [] -> None | t :: r -> if same t k then Some i else idx (i + 1) r in
        let want = (match idx 0 es with None -> "none" | Some i -> hex_of_n (n_of_int i)) in
        if pos <> want then Some "leaf lookup disagrees with the canonical order"
        else if pos2 <> want then Some "locked leaf lookup disagrees with the canonical order"
        else if rk <> "-" && rk <> hex_of_n (n_of_int (List.length (List.filter (fun t -> canon_lt t k) es)))
        then Some "compute_rank_if_insert disagrees with the canonical order" else None
    | "key" :: "interior" :: n :: rest, ci :: ki :: _ ->
      let n = int_of_n (n_of_hex n) in
      let rec ents i l = if i = 0 then ([], l) else
          match l with s :: ln :: r -> let (e, r') = ents (i - 1) r in (mk_t (n_of_hex s) (n_of_hex ln) :: e, r')
                     | _ -> failwith "interior args" in
      let (es, r) = ents n rest in
      let k = (match r with s :: l :: _ -> mk_t (n_of_hex s) (n_of_hex l) | _ -> failwith "interior key") in
      let rec sorted = function a :: (b :: _ as t) -> canon_lt a b && sorted t | _ -> true in
      if not (List.for_all kt_wf es && kt_wf k && sorted es) then None else
        let le_cnt = List.length (List.filter (fun t -> not (canon_lt k t)) es) in
        if ci <> hex_of_n (n_of_int le_cnt) then Some "interior routing disagrees with the canonical order"
        else if ki <> "-" && not (List.exists (fun t -> N.eqb t.ks k.ks && N.eqb t.kl k.kl) es)
                && ki <> hex_of_n (n_of_int (le_cnt + 1))
        then Some "interior insert position disagrees with the canonical order" else None
    | "val" :: "create" :: len :: al :: _,
      [nsz; nal; glen; boff; gsz; gal; isptr; needdel; gpok; same; aligned; dsz; dal; nc; dc] ->
      let len = int_of_n (n_of_hex len) and al = int_of_n (n_of_hex al) in
      let iv x = int_of_n (n_of_hex x) in
      let a = max al 8 in
      if iv nsz <> len + a then Some "allocated size <> len + max(align,8)"
      else if iv nal <> a then Some "allocation alignment wrong"
      else if iv glen <> len then Some "get_len <> stored length"
      else if iv boff < 8 then Some "body overlaps the header"
      else if iv boff + len > iv nsz then Some "body exceeds the block"
      else if aligned <> "1" then Some "body not aligned as requested"
      else if same <> "1" then Some "stored bytes differ"
      else if isptr <> "1" || needdel <> "1" || gpok <> "1" then Some "pointer flags wrong"
      else if iv gsz <> iv nsz || iv gal <> iv nal then Some "gc info differs from the allocation"
      else if iv dsz <> iv nsz || iv dal <> iv nal then Some "released size/alignment differ from the allocation"
      else if nc <> "1" || dc <> "1" then Some "allocation/release count wrong" else None
    | "val" :: "inline" :: w :: _, [v; b; l; nd] ->
      let w = n_of_hex w in
      if is_value_ptr w then None
      else if n_of_hex v <> w || (b <> "-" && n_of_hex b <> w) then Some "inline value not returned by value"
      else if l <> "8" then Some "inline length wrong" else None
    | _ -> None
  with _ -> Some "oracle: unparsable implementation output"

let read_lines f =
  let ic = open_in f in
  let rec go acc = match input_line ic with
    | l -> go (l :: acc)
    | exception End_of_file -> close_in ic; List.rev acc in
  go []

let () =
  let cases = read_lines Sys.argv.(1) in
  let impl = if Array.length Sys.argv > 2 then Some (Array.of_list (read_lines Sys.argv.(2))) else None in
  let idx = ref 0 in
  List.iter (fun l ->
      let toks = split_ws l in
      match toks with
      | [] -> ()
      | t :: _ when String.length t > 0 && t.[0] = '#' -> ()
      | _ ->
        print_endline (model_line toks);
        (match impl with
         | Some a when !idx < Array.length a ->
           (match oracle toks (split_ws a.(!idx)) with
            | Some why -> Printf.printf "ORACLE %d %s\n" !idx why
            | None -> ())
         | _ -> ());
        incr idx) cases
