(* shared helpers of the model drivers: N <-> int/hex, tokens *)
open Ykmodel
let rec pos_of_int (i : int) : positive =
  if i = 1 then XH
  else if i land 1 = 0 then XO (pos_of_int (i lsr 1))
  else XI (pos_of_int (i lsr 1))
let n_of_int i = if i = 0 then N0 else Npos (pos_of_int i)
let n16 = n_of_int 16
let n_of_hex (s : string) : n =
  let acc = ref N0 in
  String.iter (fun c ->
      let d = match c with
        | '0'..'9' -> Char.code c - 48
        | 'a'..'f' -> Char.code c - 87
        | 'A'..'F' -> Char.code c - 55
        | _ -> failwith ("bad hex " ^ s) in
      acc := N.add (N.mul !acc n16) (n_of_int d)) s;
  !acc
let rec int_of_pos = function
  | XH -> 1 | XO p -> 2 * int_of_pos p | XI p -> 2 * int_of_pos p + 1
let int_of_n = function N0 -> 0 | Npos p -> int_of_pos p
(* hex of an N of any size *)
let hex_of_n (x : n) : string =
  match x with
  | N0 -> "0"
  | Npos p ->
    let rec bits p acc = match p with
      | XH -> true :: acc
      | XO q -> bits q (false :: acc)   (* accumulates msb-last; fix below *)
      | XI q -> bits q (true :: acc) in
    (* collect lsb-first *)
    let rec lsb p = match p with XH -> [true] | XO q -> false :: lsb q | XI q -> true :: lsb q in
    ignore bits;
    let l = Array.of_list (lsb p) in
    let n = Array.length l in
    let nd = (n + 3) / 4 in
    let b = Buffer.create nd in
    for d = nd - 1 downto 0 do
      let v = ref 0 in
      for k = 3 downto 0 do
        let i = 4 * d + k in
        v := !v * 2 + (if i < n && l.(i) then 1 else 0)
      done;
      Buffer.add_char b "0123456789abcdef".[!v]
    done;
    Buffer.contents b
let b2s b = if b then "1" else "0"
let rec nat_of_int i = if i = 0 then O else S (nat_of_int (i - 1))
let rec int_of_nat = function O -> 0 | S k -> 1 + int_of_nat k
let split_ws s = List.filter (fun x -> x <> "") (String.split_on_char ' ' (String.trim s))
let bytes_of_hex s =
  if s = "-" then [] else
    List.init (String.length s / 2) (fun i -> n_of_hex (String.sub s (2 * i) 2))
let hex_of_bytes (l : n list) : string =
  if l = [] then "-" else
    String.concat "" (List.map (fun b -> Printf.sprintf "%02x" (int_of_n b)) l)
let read_lines f =
  let ic = open_in f in
  let rec go acc = match input_line ic with
    | l -> go (l :: acc)
    | exception End_of_file -> close_in ic; List.rev acc in
  go []
